"""Python ast -> MiniPy (coq/Model/MiniPy.v) syntax, as Coq text.  A syntax-to-syntax dump: every node kind maps to one
constructor; anything outside the fragment raises Unrecognised (fail closed).  Local `def`s are inlined at their call sites
(parameters substituted by the argument expressions, which must be names or constants)."""
from __future__ import annotations

import ast

from .pyast import Unrecognised, clean, is_logger_call, unparse
from .pyast import cstr as _cstr


def cstr(s: str) -> str:
    """A Coq string term.  A newline / tab inside the literal is spliced in by its character code (string_scope: ++ is append)."""
    if "\n" not in s and "\t" not in s:
        return _cstr(s)
    out, cur = [], ""
    for ch in s:
        if ch in "\n\t":
            if cur:
                out.append(_cstr(cur))
            out.append(f'(String (Ascii.ascii_of_nat {ord(ch)}) "")')
            cur = ""
        else:
            cur += ch
    if cur:
        out.append(_cstr(cur))
    return out[0] if len(out) == 1 else "(" + " ++ ".join(out) + ")"


class Ctx:
    def __init__(self, attr_vars=(), enum_prefixes=(), identity_calls=(), attr_targets=(), prims=None,
                 objects=False, consts=None, tables=(), procs=None, record_classes=(), str_consts=None, skip_stmts=(),
                 refs=None, ref_procs=None, record_ctors=None, message_vars=(), unmodelled=None, while_fuel=None,
                 kw_ctors=None, setters=None, strings=False, hoist=False):
        self.attr_vars = set(attr_vars) | set(attr_targets)  # source texts treated as variables, e.g. "self.prefix"
        self.attr_targets = set(attr_targets)    # attributes the method may assign / append to, e.g. "self.negative_option_strings"
        self.enum_prefixes = tuple(enum_prefixes)  # "DashVariant." ... : enum members become string constants
        self.identity_calls = set(identity_calls)  # callables that return their argument, e.g. "DashVariant", "list"
        self.prims = dict(prims or {})           # external pure helpers with a primitive in MiniPy, e.g. "utils.get_nesting_level": "ENestLevel"
        # ---- fourth group: objects, dicts, procedures (all off by default: the older sources keep failing closed on them)
        self.objects = objects                   # e.name reads an attribute of an object (EAttr); item / attribute assignment; dicts
        self.consts = dict(consts or {})         # source text -> sentinel constant, e.g. "argparse.SUPPRESS"
        self.tables = set(tables)                # method calls read as uninterpreted pure functions given by a table (ECallTable)
        self.procs = dict(procs or {})           # callee name -> (FunctionDef, Ctx, self argument name or None): dumped procedures
        self.record_classes = set(record_classes)
        self.str_consts = dict(str_consts or {})  # module-level string constants by name, e.g. DC_TYPE_KEY -> "_type_" (checked by the caller)
        self.skip_stmts = set(skip_stmts)         # exact source texts of statements the caller declares to be no-ops of the model
        # ---- sixth group: references into ONE store (aliasing made explicit), while, defaultdict(list)
        self.refs = refs                          # (store variable, {names that hold a reference = a key of the store}): x.attr reads
                                                  # store[x].attr, x.attr = e updates the store; references themselves are plain values
        self.ref_procs = dict(ref_procs or {})    # attribute of a referenced object computed by a dumped method: attr -> (body, ins, locals)
        self.record_ctors = dict(record_ctors or {})   # class name -> field names: Cls(a, b) builds a new object
        self.message_vars = set(message_vars)     # names that only carry exception / log messages: not modelled
        self.unmodelled = dict(unmodelled or {})  # callee source -> error class: a statement calling it is `raise <that>` in the dump
        self.while_fuel = while_fuel              # bound of every while loop (the caller reads it from the source)
        # ---- seventh group: uninterpreted constructors called with keywords, one-assignment setter methods
        self.kw_ctors = dict(kw_ctors or {})      # callee source -> (class name, parameter names in signature order): the call builds a new
                                                  # object that keeps exactly the arguments written at the call (positional ones named)
        self.setters = dict(setters or {})        # method name -> attribute: `x.m(v)` is `x.attr = v` (the caller pins the method's body)
        self.strings = strings                    # character-level string code: strip / partition / isidentifier / split(sep, maxsplit=n) /
                                                  # index / general slices / range / chained comparisons of names / x -= e
        self.hoist = hoist                        # a call f(..) of a dumped procedure (c.procs) inside an expression: evaluated just before
                                                  # the statement into a fresh variable (the procedures are pure functions of their arguments)
        self.hoist_n = 0
        self.defaultdicts = set()
        self.setvars = set()
        self.views = {}                          # X -> Y after `X = vars(Y)`: X is the live dict view of the object Y (ONE variable)
        self.local_defs = {}
        self.assigned = []

    def note(self, name):
        if name not in self.assigned:
            self.assigned.append(name)


def one_char(node, what):
    if not (isinstance(node, ast.Constant) and isinstance(node.value, str) and len(node.value) == 1):
        raise Unrecognised(f"{what}: expected a one-character string literal, got {unparse(node)}")
    return node.value


def expr(n, c: Ctx, subst=None) -> str:
    subst = subst or {}
    src = unparse(n)
    if c.objects:
        r = expr4(n, c, subst, src)
        if r is not None:
            return r
    if src in c.attr_vars:
        return f"(EVar {cstr(src)})"
    if isinstance(n, ast.Name):
        if n.id in subst:
            return subst[n.id]
        return f"(EVar {cstr(n.id)})"
    if isinstance(n, ast.Attribute) and src.startswith(c.enum_prefixes):
        return f"(EStr {cstr(src)})"
    if isinstance(n, ast.Constant):
        if isinstance(n.value, bool):
            return f"(EBool {'true' if n.value else 'false'})"
        if isinstance(n.value, str):
            return f"(EStr {cstr(n.value)})"
        if isinstance(n.value, int) and 0 <= n.value < 1000:
            return f"(ENat {n.value})"
    if isinstance(n, ast.JoinedStr):
        parts = []
        for v in n.values:
            if isinstance(v, ast.Constant):
                parts.append(f"(EStr {cstr(v.value)})")
            elif isinstance(v, ast.FormattedValue) and v.conversion == -1 and v.format_spec is None:
                parts.append(expr(v.value, c, subst))
            else:
                raise Unrecognised(f"f-string part {unparse(v)}")
        return "(EFmt [" + "; ".join(parts) + "])"
    if isinstance(n, ast.IfExp):
        return f"(ECond {expr(n.test, c, subst)} {expr(n.body, c, subst)} {expr(n.orelse, c, subst)})"
    if isinstance(n, ast.UnaryOp) and isinstance(n.op, ast.Not):
        return f"(ENot {expr(n.operand, c, subst)})"
    if isinstance(n, ast.Compare) and len(n.ops) == 1:
        a, b = expr(n.left, c, subst), expr(n.comparators[0], c, subst)
        if isinstance(n.ops[0], ast.Eq):
            return f"(EEq {a} {b})"
        if isinstance(n.ops[0], ast.In):
            return f"(EIn {a} {b})"
        if isinstance(n.ops[0], ast.NotEq):
            return f"(ENot (EEq {a} {b}))"
    if isinstance(n, ast.List):      # a tuple display is NOT a list (isinstance, ==): outside the fragment
        return "(EList [" + "; ".join(expr(e, c, subst) for e in n.elts) + "])"
    if isinstance(n, ast.Subscript) and isinstance(n.slice, ast.Slice) and n.slice.upper is None and n.slice.step is None \
            and isinstance(n.slice.lower, ast.Constant) and isinstance(n.slice.lower.value, int) and n.slice.lower.value >= 0:
        return f"(ESliceFrom {expr(n.value, c, subst)} {n.slice.lower.value})"
    if isinstance(n, ast.ListComp) and len(n.generators) == 1:
        g = n.generators[0]
        if isinstance(g.target, ast.Name) and not g.is_async and len(g.ifs) <= 1:
            cond = f"(Some {expr(g.ifs[0], c, subst)})" if g.ifs else "None"
            return f"(EComp {expr(n.elt, c, subst)} {cstr(g.target.id)} {expr(g.iter, c, subst)} {cond})"
    if isinstance(n, ast.Call):
        f = n.func
        fsrc = unparse(f)
        if fsrc == "list" and len(n.args) == 1 and not n.keywords and _is_fromkeys(n.args[0]):
            return dedupe(n.args[0], c, subst)      # list(dict.fromkeys(..)): the de-duplicated LIST
        if fsrc in c.identity_calls and len(n.args) == 1 and not n.keywords:
            return expr(n.args[0], c, subst)
        if fsrc == "len" and len(n.args) == 1:
            return f"(ELen {expr(n.args[0], c, subst)})"
        if fsrc == "sorted" and len(n.args) == 1 and len(n.keywords) == 1 and n.keywords[0].arg == "key" and unparse(n.keywords[0].value) == "len":
            return f"(ESortLen {expr(n.args[0], c, subst)})"
        if _is_fromkeys(n):
            return dedupe(n, c, subst)      # a dict read as the list of its keys: fromkeys_check admits it only where that is the same
        if isinstance(f, ast.Attribute):
            m = f.attr
            if m == "replace" and len(n.args) == 2:
                return f"(EReplace {expr(f.value, c, subst)} {cstr(one_char(n.args[0], 'replace'))} {cstr(one_char(n.args[1], 'replace'))})"
            if m == "startswith" and len(n.args) == 1 and isinstance(n.args[0], ast.Constant) and isinstance(n.args[0].value, str):
                return f"(EStartswith {expr(f.value, c, subst)} {cstr(n.args[0].value)})"
            if m == "split" and len(n.args) == 1:
                return f"(ESplit {expr(f.value, c, subst)} {cstr(one_char(n.args[0], 'split'))})"
            if m == "join" and len(n.args) == 1 and isinstance(f.value, ast.Constant) and isinstance(f.value.value, str):
                return f"(EJoin {cstr(f.value.value)} {expr(n.args[0], c, subst)})"
    # ---- second group (BooleanOptionalAction.__init__) ----
    if isinstance(n, ast.Constant) and n.value is None:
        return "ENone"
    if isinstance(n, ast.Compare) and len(n.ops) == 1:
        op, right = n.ops[0], n.comparators[0]
        if isinstance(op, (ast.Is, ast.IsNot)) and isinstance(right, ast.Constant) and right.value is None:
            t = f"(EIsNone {expr(n.left, c, subst)})"
            return t if isinstance(op, ast.Is) else f"(ENot {t})"
        if isinstance(op, ast.NotIn):
            return f"(ENot (EIn {expr(n.left, c, subst)} {expr(right, c, subst)}))"
        if isinstance(op, ast.Gt):
            return f"(EGt {expr(n.left, c, subst)} {expr(right, c, subst)})"
    if isinstance(n, ast.BinOp):
        if isinstance(n.op, ast.Add):
            return f"(EAdd {expr(n.left, c, subst)} {expr(n.right, c, subst)})"
        if isinstance(n.op, ast.Sub):
            return f"(ESub {expr(n.left, c, subst)} {expr(n.right, c, subst)})"
        if isinstance(n.op, ast.Mult):
            if isinstance(n.left, ast.Constant):
                return f"(ERepeat {cstr(one_char(n.left, 'repetition'))} {expr(n.right, c, subst)})"
            return f"(EMul {expr(n.left, c, subst)} {expr(n.right, c, subst)})"
    if isinstance(n, ast.Call) and isinstance(n.func, ast.Attribute) and not n.keywords and len(n.args) == 1:
        if n.func.attr == "lstrip":
            return f"(ELstrip {expr(n.func.value, c, subst)} {cstr(one_char(n.args[0], 'lstrip'))})"
        if n.func.attr == "endswith" and isinstance(n.args[0], ast.Constant) and isinstance(n.args[0].value, str):
            return f"(EEndswith {expr(n.func.value, c, subst)} {cstr(n.args[0].value)})"
    # ---- third group (FieldWrapper.duplicate_if_needed) ----
    if isinstance(n, ast.BoolOp) and len(n.values) >= 2:
        k = "EAnd" if isinstance(n.op, ast.And) else "EOr"
        vs = [expr(v, c, subst) for v in n.values]
        out = vs[-1]
        for v in reversed(vs[:-1]):      # a op b op c evaluates like a op (b op c)
            out = f"({k} {v} {out})"
        return out
    if isinstance(n, ast.Subscript) and isinstance(n.slice, ast.Constant) and isinstance(n.slice.value, int) \
            and not isinstance(n.slice.value, bool) and 0 <= n.slice.value < 1000:
        return f"(EIndex {expr(n.value, c, subst)} {n.slice.value})"
    if isinstance(n, ast.Call) and not n.keywords:
        fsrc = unparse(n.func)
        if fsrc == "isinstance" and len(n.args) == 2:
            cls = n.args[1].elts if isinstance(n.args[1], ast.Tuple) else [n.args[1]]
            if cls and all(isinstance(k, ast.Name) and k.id in ("list", "tuple", "str") for k in cls):
                return f"(EIsInst {expr(n.args[0], c, subst)} [{'; '.join(cstr(k.id) for k in cls)}])"
        if fsrc == "list" and len(n.args) == 1:
            return f"(EToList {expr(n.args[0], c, subst)})"
        if fsrc in c.prims and len(n.args) == 1:
            return f"({c.prims[fsrc]} {expr(n.args[0], c, subst)})"
    raise Unrecognised(f"expression outside the MiniPy fragment: {src[:100]}")


# ---- fourth group: objects with attributes, dicts, sentinels, tables, procedures ------------------------------------------


def _is_none(n):
    return isinstance(n, ast.Constant) and n.value is None


def expr7(n, c: Ctx, subst):
    if isinstance(n, ast.Call) and isinstance(n.func, ast.Attribute):
        m, obj, a, kw = n.func.attr, n.func.value, n.args, n.keywords
        if m == "strip" and not a and not kw:
            return f"(EStrip {expr(obj, c, subst)})"
        if m == "isidentifier" and not a and not kw:
            return f"(EIsIdent {expr(obj, c, subst)})"
        if m == "partition" and len(a) == 1 and not kw and isinstance(a[0], ast.Constant) and isinstance(a[0].value, str) and a[0].value:
            return f"(EPartition {expr(obj, c, subst)} {cstr(a[0].value)})"
        if m == "split" and len(a) == 1 and len(kw) == 1 and kw[0].arg == "maxsplit" and isinstance(kw[0].value, ast.Constant) \
                and isinstance(kw[0].value.value, int) and not isinstance(kw[0].value.value, bool) and 0 <= kw[0].value.value < 1000:
            return f"(ESplitN {expr(obj, c, subst)} {expr(a[0], c, subst)} {kw[0].value.value})"
        if m == "index" and len(a) == 1 and not kw:
            return f"(EIndexOf {expr(obj, c, subst)} {expr(a[0], c, subst)})"
    if isinstance(n, ast.Call) and isinstance(n.func, ast.Name) and n.func.id == "range" and len(n.args) == 2 and not n.keywords and "range" not in subst:
        return f"(ERange {expr(n.args[0], c, subst)} {expr(n.args[1], c, subst)})"
    if isinstance(n, ast.Subscript) and isinstance(n.slice, ast.Slice) and n.slice.step is None \
            and not (n.slice.upper is None and isinstance(n.slice.lower, ast.Constant) and isinstance(n.slice.lower.value, int)
                     and not isinstance(n.slice.lower.value, bool) and n.slice.lower.value >= 0):     # e[n:] with a literal n is ESliceFrom
        lo = "None" if n.slice.lower is None else f"(Some {expr(n.slice.lower, c, subst)})"
        hi = "None" if n.slice.upper is None else f"(Some {expr(n.slice.upper, c, subst)})"
        return f"(ESlice {expr(n.value, c, subst)} {lo} {hi})"
    if isinstance(n, ast.Compare) and len(n.ops) == 2 and isinstance(n.comparators[0], (ast.Name, ast.Constant)):
        # a op b op c with a simple middle operand (it is evaluated once in Python, twice here)
        one = ast.Compare(left=n.left, ops=[n.ops[0]], comparators=[n.comparators[0]])
        two = ast.Compare(left=n.comparators[0], ops=[n.ops[1]], comparators=[n.comparators[1]])
        return f"(EAnd {expr(one, c, subst)} {expr(two, c, subst)})"
    return None


def expr4(n, c: Ctx, subst, src):
    if c.strings:
        t = expr7(n, c, subst)
        if t is not None:
            return t
    """The forms that exist only with Ctx(objects=True); None = not one of them (the older forms are tried next)."""
    if src in c.attr_vars:
        return None
    if src in c.consts:
        return f"(EConst {cstr(c.consts[src])})"
    if c.refs is not None and isinstance(n, ast.Attribute) and isinstance(n.ctx, ast.Load) and isinstance(n.value, ast.Name) \
            and n.value.id in c.refs[1] and n.value.id not in subst:
        if n.attr in c.ref_procs:
            raise Unrecognised(f"{src}: a computed attribute of a referenced object is read only as the iterable of a for loop")
        return f"(EAttr (EGetItem (EVar {cstr(c.refs[0])}) (EVar {cstr(n.value.id)})) {cstr(n.attr)})"
    if isinstance(n, ast.Compare) and len(n.ops) == 1 and isinstance(n.ops[0], (ast.GtE, ast.LtE, ast.Lt)):
        a_, b_ = expr(n.left, c, subst), expr(n.comparators[0], c, subst)
        if isinstance(n.ops[0], ast.Lt):
            return f"(EGt {b_} {a_})"
        return f"(ENot (EGt {b_} {a_}))" if isinstance(n.ops[0], ast.GtE) else f"(ENot (EGt {a_} {b_}))"
    if isinstance(n, ast.Call) and not n.keywords and len(n.args) == 1:
        f_ = unparse(n.func)
        a0 = n.args[0]
        if f_ == "any" and isinstance(a0, ast.GeneratorExp) and len(a0.generators) == 1:
            g = a0.generators[0]
            if isinstance(g.target, ast.Name) and not g.ifs and not g.is_async:
                return f"(EAny {expr(a0.elt, c, subst)} {cstr(g.target.id)} {expr(g.iter, c, subst)})"
        if f_ == "len" and isinstance(a0, ast.Call) and unparse(a0.func) == "set" and len(a0.args) == 1 and not a0.keywords:
            return f"(ECountDistinct {expr(a0.args[0], c, subst)})"
        if f_ == "list" and isinstance(a0, ast.Call) and unparse(a0.func) == "filter" and len(a0.args) == 2 and not a0.keywords \
                and unparse(a0.args[0]) == "bool":
            return f"(EComp (EVar \"<item>\") \"<item>\" {expr(a0.args[1], c, subst)} (Some (EVar \"<item>\")))"
    if isinstance(n, ast.Call) and unparse(n.func) == "functools.partial" and len(n.args) == 2 and not n.keywords and unparse(n.args[0]) in c.consts:
        # functools.partial(f, x) for a named function f: a new callable object, kept as a record
        return f"(ERec \"functools.partial\" [(\"func\", (EConst {cstr(c.consts[unparse(n.args[0])])})); (\"arg\", {expr(n.args[1], c, subst)})])"
    if isinstance(n, ast.Call) and isinstance(n.func, ast.Name) and n.func.id in c.record_ctors and not n.keywords \
            and len(n.args) == len(c.record_ctors[n.func.id]):
        fs_ = "; ".join(f"({cstr(k)}, {expr(a, c, subst)})" for k, a in zip(c.record_ctors[n.func.id], n.args))
        return f"(ERec {cstr(n.func.id)} [{fs_}])"
    if isinstance(n, ast.Call) and unparse(n.func) == "sorted" and len(n.args) == 1 and n.keywords and n.keywords[0].arg == "key" \
            and isinstance(n.keywords[0].value, ast.Lambda) and c.refs is not None:
        lam = n.keywords[0].value
        rev = n.keywords[1:]
        if len(lam.args.args) == 1 and lam.args.args[0].arg in c.refs[1] and len(rev) <= 1 \
                and all(k.arg == "reverse" and isinstance(k.value, ast.Constant) and isinstance(k.value.value, bool) for k in rev):
            r_ = "true" if rev and rev[0].value.value else "false"
            return f"(ESortKey {expr(n.args[0], c, subst)} {cstr(lam.args.args[0].arg)} {expr(lam.body, c, subst)} {r_})"
    if isinstance(n, ast.Name) and n.id in c.str_consts and n.id not in subst:
        return f"(EStr {cstr(c.str_consts[n.id])})"
    if isinstance(n, ast.Compare) and len(n.ops) == 1 and isinstance(n.ops[0], (ast.In, ast.NotIn)) \
            and isinstance(n.comparators[0], ast.Name) and n.comparators[0].id in c.setvars:
        t_ = f"(EIn {expr(n.left, c, subst)} (EVar {cstr(n.comparators[0].id)}))"
        return t_ if isinstance(n.ops[0], ast.In) else f"(ENot {t_})"
    if isinstance(n, ast.Name) and n.id in c.setvars:
        raise Unrecognised(f"the set {n.id} is used other than through .add and `in`")
    if isinstance(n, ast.Name) and n.id in c.views:
        raise Unrecognised(f"the view {n.id} = vars({c.views[n.id]}) is used as a value (only .pop, `in` and Namespace(**view) are read)")
    if isinstance(n, ast.Compare) and len(n.ops) == 1:
        op, left, right = n.ops[0], n.left, n.comparators[0]
        if isinstance(op, (ast.Is, ast.IsNot)) and unparse(right) in c.consts:
            t = f"(EIsConst {expr(left, c, subst)} {cstr(c.consts[unparse(right)])})"
            return t if isinstance(op, ast.Is) else f"(ENot {t})"
        if isinstance(op, (ast.In, ast.NotIn)) and isinstance(right, ast.Name) and right.id in c.views:
            t = f"(EIn {expr(left, c, subst)} (EVar {cstr(c.views[right.id])}))"       # k in vars(o)  ==  k in o (Namespace)
            return t if isinstance(op, ast.In) else f"(ENot {t})"
    if isinstance(n, ast.Tuple):
        return "(ETuple [" + "; ".join(expr(e, c, subst) for e in n.elts) + "])"
    if isinstance(n, ast.Dict):
        if any(k is None for k in n.keys):
            raise Unrecognised("dict display with ** unpacking")
        return "(EDict [" + "; ".join(f"({expr(k, c, subst)}, {expr(v, c, subst)})" for k, v in zip(n.keys, n.values)) + "])"
    if isinstance(n, ast.Attribute) and isinstance(n.ctx, ast.Load) and not src.startswith(c.enum_prefixes):
        return f"(EAttr {expr(n.value, c, subst)} {cstr(n.attr)})"
    if isinstance(n, ast.Subscript) and not isinstance(n.slice, ast.Slice) \
            and not (isinstance(n.slice, ast.Constant) and isinstance(n.slice.value, int) and not isinstance(n.slice.value, bool)):
        return f"(EGetItem {expr(n.value, c, subst)} {expr(n.slice, c, subst)})"
    if isinstance(n, ast.Call):
        fsrc = unparse(n.func)
        a = n.args
        if fsrc in c.tables and len(a) == 1 and not n.keywords and isinstance(n.func, ast.Attribute):
            return f"(ECallTable (EAttr {expr(n.func.value, c, subst)} {cstr(n.func.attr)}) {expr(a[0], c, subst)})"
        if fsrc in c.tables and len(a) == 1 and not n.keywords and isinstance(n.func, ast.Name) and n.func.id not in subst:
            return f"(ECallTable (EVar {cstr(n.func.id)}) {expr(a[0], c, subst)})"
        if fsrc in c.tables and not a and len(n.keywords) == 1 and n.keywords[0].arg is None and isinstance(n.func, ast.Name):
            # f(**kwargs) for an uninterpreted function f of the keyword dict
            return f"(ECallTable (EVar {cstr(n.func.id)}) {expr(n.keywords[0].value, c, subst)})"
        if fsrc == "sorted" and len(a) == 1 and n.keywords and n.keywords[0].arg == "key" and isinstance(n.keywords[0].value, ast.Lambda):
            lam = n.keywords[0].value
            rev = [k for k in n.keywords[1:]]
            if len(lam.args.args) == 1 and isinstance(lam.body, ast.Attribute) and isinstance(lam.body.value, ast.Name) \
                    and lam.body.value.id == lam.args.args[0].arg and len(rev) <= 1 \
                    and all(k.arg == "reverse" and isinstance(k.value, ast.Constant) and isinstance(k.value.value, bool) for k in rev):
                r = "true" if rev and rev[0].value.value else "false"
                return f"(ESortAttr {expr(a[0], c, subst)} {cstr(lam.body.attr)} {r})"
        if fsrc == "all" and len(a) == 1 and not n.keywords and isinstance(a[0], ast.GeneratorExp) and len(a[0].generators) == 1:
            g = a[0].generators[0]
            if isinstance(g.target, ast.Name) and not g.ifs and not g.is_async:
                return f"(EAll {expr(a[0].elt, c, subst)} {cstr(g.target.id)} {expr(g.iter, c, subst)})"
        if fsrc == "argparse.Namespace" and not a and len(n.keywords) == 1 and n.keywords[0].arg is None \
                and isinstance(n.keywords[0].value, ast.Name) and n.keywords[0].value.id in c.views:
            return f"(EVar {cstr(c.views[n.keywords[0].value.id])})"      # a new Namespace with the same attributes
        if fsrc in c.kw_ctors and all(k.arg is not None for k in n.keywords) and not any(isinstance(x, ast.Starred) for x in a):
            cls_, params = c.kw_ctors[fsrc]
            given = dict(zip(params, a))
            if len(a) <= len(params) and all(k.arg in params and k.arg not in given for k in n.keywords) \
                    and len({k.arg for k in n.keywords}) == len(n.keywords):
                given.update({k.arg: k.value for k in n.keywords})
                fs_ = "; ".join(f"({cstr(p_)}, {expr(given[p_], c, subst)})" for p_ in params if p_ in given)
                return f"(ERec {cstr(cls_)} [{fs_}])"
        if n.keywords:
            return None
        if fsrc == "cast" and len(a) == 2:
            return expr(a[1], c, subst)
        if fsrc == "getattr" and len(a) == 2:
            return f"(EGetAttr {expr(a[0], c, subst)} {expr(a[1], c, subst)})"
        if fsrc == "hasattr" and len(a) == 2:
            return f"(EHasAttr {expr(a[0], c, subst)} {expr(a[1], c, subst)})"
        if fsrc == "vars" and len(a) == 1:
            return f"(EVars {expr(a[0], c, subst)})"
        if fsrc == "zip" and len(a) == 2:
            return f"(EZip {expr(a[0], c, subst)} {expr(a[1], c, subst)})"
        if fsrc == "isinstance" and len(a) == 2:
            cls = a[1].elts if isinstance(a[1], ast.Tuple) else [a[1]]
            ok = ("list", "tuple", "str", "dict") + tuple(c.record_classes)
            if cls and all(isinstance(k, ast.Name) and k.id in ok for k in cls):
                return f"(EIsInst {expr(a[0], c, subst)} [{'; '.join(cstr(k.id) for k in cls)}])"
            if cls and all(unparse(k) in c.record_classes for k in cls):
                return f"(EIsInst {expr(a[0], c, subst)} [{'; '.join(cstr(unparse(k)) for k in cls)}])"
        if isinstance(n.func, ast.Attribute):
            m, obj = n.func.attr, n.func.value
            if m == "get" and len(a) == 2:
                return f"(EDictGet {expr(obj, c, subst)} {expr(a[0], c, subst)} {expr(a[1], c, subst)})"
            if m == "get" and len(a) == 1:
                return f"(EDictGet {expr(obj, c, subst)} {expr(a[0], c, subst)} ENone)"
            if m == "copy" and not a:
                return f"(ECopy {expr(obj, c, subst)})"
            if m in ("keys", "values", "items") and not a:
                return f"({'E' + m.capitalize()} {expr(obj, c, subst)})"
    return None


def _pure_message(n):
    """An expression that only builds text for an exception / a log line: names, attributes, literals, f-strings, +, str(),
    sep.join(..) of a display or a generator, list displays.  It is not modelled; anything else fails closed."""
    for m in ast.walk(n):
        ok = isinstance(m, (ast.Name, ast.Attribute, ast.Constant, ast.JoinedStr, ast.FormattedValue, ast.BinOp, ast.Add, ast.Load, ast.Store,
                            ast.List, ast.Tuple, ast.GeneratorExp, ast.comprehension, ast.Sub, ast.Mod))
        if isinstance(m, ast.Call):
            f_ = unparse(m.func)
            ok = f_ in ("str", "repr", "len", "enumerate") or (isinstance(m.func, ast.Attribute) and m.func.attr == "join")
        if not ok:
            raise Unrecognised(f"message expression outside the admitted forms: {unparse(n)[:80]}")


def _path_of(target, c: Ctx, subst):
    """x[k1].a[k2] ... as (root name, [(is_attr, key expr text)]); None when the target is not such a chain."""
    path = []
    t = target
    while True:
        if unparse(t) in c.attr_targets or isinstance(t, ast.Name):
            break
        if isinstance(t, ast.Subscript) and not isinstance(t.slice, ast.Slice):
            path.append(f"(false, {expr(t.slice, c, subst)})")
            t = t.value
        elif isinstance(t, ast.Attribute):
            path.append(f"(true, (EStr {cstr(t.attr)}))")
            t = t.value
        else:
            return None
    if isinstance(t, ast.Name) and (t.id in subst or t.id in c.views):
        raise Unrecognised(f"assignment through the substituted parameter / view {t.id}")
    root = t.id if isinstance(t, ast.Name) else unparse(t)
    if c.refs is not None and root in c.refs[1]:          # x.attr = e through the reference x: an update of the store at key x
        return c.refs[0], [f"(false, (EVar {cstr(root)}))"] + list(reversed(path))
    return root, list(reversed(path))


def _pop_call(v):
    return isinstance(v, ast.Call) and isinstance(v.func, ast.Attribute) and v.func.attr == "pop" and not v.keywords \
        and len(v.args) in (1, 2) and (isinstance(v.func.value, ast.Name) or True)


def _has_own(body, kind):
    """A `continue` / `break` of THIS loop: not inside a nested loop."""
    for s in body:
        if isinstance(s, kind):
            return True
        if isinstance(s, ast.If) and (_has_own(s.body, kind) or _has_own(s.orelse, kind)):
            return True
    return False


def _has_own_continue(body):
    return _has_own(body, ast.Continue)


def stmt4(s, c: Ctx, subst):
    if isinstance(s, ast.ImportFrom):
        return []                                            # a local import binds a name only
    if unparse(s) in c.skip_stmts:
        return []
    if isinstance(s, ast.AnnAssign) and s.value is None and isinstance(s.target, ast.Name):
        return []                                            # a bare annotation `x: T` binds nothing
    if isinstance(s, ast.Continue):
        return ["SContinue"]
    if isinstance(s, ast.Expr) and isinstance(s.value, ast.Call) and isinstance(s.value.func, ast.Attribute) and s.value.func.attr in c.setters \
            and isinstance(s.value.func.value, ast.Name) and s.value.func.value.id not in subst and len(s.value.args) == 1 and not s.value.keywords:
        return [f"SSetPath {cstr(s.value.func.value.id)} [(true, (EStr {cstr(c.setters[s.value.func.attr])}))] {expr(s.value.args[0], c, subst)}"]
    if isinstance(s, ast.Break):
        return ["SBreak"]
    if isinstance(s, ast.For) and isinstance(s.target, ast.Name) and (s.orelse or _has_own(s.body, ast.Break)):
        c.note(s.target.id)
        return [f"SForBE {cstr(s.target.id)} {expr(s.iter, c, subst)} [{'; '.join(block(s.body, c, subst))}] [{'; '.join(block(s.orelse, c, subst))}]"]
    if isinstance(s, ast.For) and _has_own(s.body, ast.Break):
        raise Unrecognised("break in a loop with several targets")
    if isinstance(s, ast.Assign) and len(s.targets) == 1 and isinstance(s.targets[0], ast.Name) and isinstance(s.value, ast.Call) \
            and isinstance(s.value.func, ast.Name) and s.value.func.id in c.procs and s.targets[0].id not in subst:
        c.note(s.targets[0].id)
        return [proc_call(s.value, c, subst, ret=s.targets[0].id)]
    if isinstance(s, ast.Return) and s.value is None:
        return ["SReturn ENone"]
    # ---- sixth group
    for callee, errcls in c.unmodelled.items():
        if any(isinstance(m, ast.Call) and unparse(m.func) == callee for m in ast.walk(s)) and not isinstance(s, (ast.If, ast.For, ast.While)):
            return [f"SRaise {cstr(errcls)}"]
    if isinstance(s, (ast.Assign, ast.AnnAssign)) and getattr(s, "value", None) is not None:
        tg = s.targets[0] if isinstance(s, ast.Assign) and len(s.targets) == 1 else getattr(s, "target", None)
        if isinstance(tg, ast.Name) and tg.id in c.message_vars:
            _pure_message(s.value)
            return []
        if isinstance(tg, ast.Name) and unparse(s.value) == "set()" and tg.id not in subst:
            c.setvars.add(tg.id)                # a set used only through .add and `in`: the list of the added elements
            c.note(tg.id)
            return [f"SAssign {cstr(tg.id)} (EList [])"]
        if isinstance(tg, ast.Name) and unparse(s.value) == "defaultdict(list)" and tg.id not in subst:
            c.defaultdicts.add(tg.id)
            c.note(tg.id)
            return [f"SAssign {cstr(tg.id)} (EDict [])"]
    if isinstance(s, ast.Expr) and isinstance(s.value, ast.Call) and isinstance(s.value.func, ast.Attribute) and not s.value.keywords \
            and len(s.value.args) == 1:
        f_ = s.value.func
        if f_.attr == "append" and isinstance(f_.value, ast.Subscript) and isinstance(f_.value.value, ast.Name) \
                and f_.value.value.id in c.defaultdicts and not isinstance(f_.value.slice, ast.Slice):
            return [f"SDictAppend {cstr(f_.value.value.id)} {expr(f_.value.slice, c, subst)} {expr(s.value.args[0], c, subst)}"]
        if f_.attr == "add" and isinstance(f_.value, ast.Name) and f_.value.id in c.setvars:
            return [f"SAppend {cstr(f_.value.id)} {expr(s.value.args[0], c, subst)}"]
        if f_.attr == "remove" and isinstance(f_.value, ast.Name) and f_.value.id not in subst:
            return [f"SRemove {cstr(f_.value.id)} {expr(s.value.args[0], c, subst)}"]
    if isinstance(s, ast.AugAssign) and isinstance(s.op, ast.Add) and isinstance(s.target, ast.Name) and s.target.id not in subst:
        return [f"SAssign {cstr(s.target.id)} (EAdd (EVar {cstr(s.target.id)}) {expr(s.value, c, subst)})"]
    if isinstance(s, ast.While) and not s.orelse:
        if c.while_fuel is None:
            raise Unrecognised("while loop without a declared bound")
        return [f"SWhile {int(c.while_fuel)} {expr(s.test, c, subst)} [{'; '.join(block(s.body, c, subst))}]"]
    if isinstance(s, ast.For) and not s.orelse and s.body and all(is_logger_call(x) for x in s.body):
        _pure_message(s.iter)
        return []                                            # a loop that only logs (its variables are not read afterwards: unchecked)
    if isinstance(s, ast.Raise) and s.cause is None and isinstance(s.exc, ast.Call) and isinstance(s.exc.func, (ast.Name, ast.Attribute)) \
            and not s.exc.keywords and c.message_vars is not None and c.refs is not None:
        for a in s.exc.args:
            _pure_message(a)
        cls_ = s.exc.func.id if isinstance(s.exc.func, ast.Name) else s.exc.func.attr
        return [f"SRaise {cstr(cls_)}"]
    # for v in x.<computed attribute>: the attribute is computed by a dumped method on the referenced object
    if isinstance(s, ast.For) and not s.orelse and isinstance(s.target, ast.Name) and c.refs is not None and isinstance(s.iter, ast.Attribute) \
            and isinstance(s.iter.value, ast.Name) and s.iter.value.id in c.refs[1] and s.iter.attr in c.ref_procs:
        body_txt, ins_spec = c.ref_procs[s.iter.attr]
        obj = f"(EGetItem (EVar {cstr(c.refs[0])}) (EVar {cstr(s.iter.value.id)}))"
        ins = "; ".join(f"({cstr(v)}, {'ENone' if a is None else f'(EAttr {obj} {cstr(a)})'})" for v, a in ins_spec)
        tmp = f"{s.iter.attr} of {s.iter.value.id}"
        c.note(tmp)
        c.note(s.target.id)
        if _has_own(s.body, ast.Break) or _has_own(s.body, ast.Continue):
            raise Unrecognised("break / continue in a loop over a computed attribute")
        return [f"SCallRet {cstr(tmp)} {body_txt} [{ins}] []",
                f"SFor {cstr(s.target.id)} (EVar {cstr(tmp)}) [{'; '.join(block(s.body, c, subst))}]"]
    # t = self.m(..) / self.m(..) / assert not self.m(..) for a dumped method
    def _is_proc(call):
        return isinstance(call, ast.Call) and unparse(call.func) in c.procs and isinstance(call.func, ast.Attribute)
    if isinstance(s, ast.Assign) and len(s.targets) == 1 and isinstance(s.targets[0], ast.Name) and _is_proc(s.value) and s.targets[0].id not in subst:
        c.note(s.targets[0].id)
        return [proc_call(s.value, c, subst, ret=s.targets[0].id)]
    if isinstance(s, ast.Expr) and _is_proc(s.value):
        return [proc_call(s.value, c, subst)]
    if isinstance(s, ast.Assert) and isinstance(s.test, ast.UnaryOp) and isinstance(s.test.op, ast.Not) and _is_proc(s.test.operand):
        tmp = "result of " + unparse(s.test.operand.func)
        c.note(tmp)
        return [proc_call(s.test.operand, c, subst, ret=tmp), f"SAssert (ENot (EVar {cstr(tmp)}))"]
    # X = vars(Y): X is the live view of Y - ONE variable
    if isinstance(s, ast.Assign) and len(s.targets) == 1 and isinstance(s.targets[0], ast.Name) and isinstance(s.value, ast.Call) \
            and unparse(s.value.func) == "vars" and len(s.value.args) == 1 and isinstance(s.value.args[0], ast.Name) and not s.value.keywords:
        c.views[s.targets[0].id] = s.value.args[0].id
        return []
    # [t =] x.pop(k[, d])
    tgt, val = None, None
    if isinstance(s, ast.Assign) and len(s.targets) == 1 and isinstance(s.targets[0], ast.Name):
        tgt, val = s.targets[0].id, s.value
    elif isinstance(s, ast.AnnAssign) and isinstance(s.target, ast.Name) and s.value is not None:
        tgt, val = s.target.id, s.value
    elif isinstance(s, ast.Expr):
        tgt, val = "_", s.value
    if val is not None and _pop_call(val) and (isinstance(val.func.value, ast.Name) or unparse(val.func.value) in c.attr_targets):
        x = val.func.value.id if isinstance(val.func.value, ast.Name) else unparse(val.func.value)
        if x in subst or tgt in subst:
            raise Unrecognised("pop on a substituted parameter")
        k = expr(val.args[0], c, subst)
        d = f"(Some {expr(val.args[1], c, subst)})" if len(val.args) == 2 else "None"
        if tgt != "_":
            c.note(tgt)
        if x in c.views:
            return [f"SPopAttr {cstr(tgt)} {cstr(c.views[x])} {k} {d}"]
        return [f"SPop {cstr(tgt)} {cstr(x)} {k} {d}"]
    # x[k1]..[kn] = e, x.a = e, setattr(x, k, e)
    if isinstance(s, ast.Assign) and len(s.targets) == 1 and isinstance(s.targets[0], (ast.Subscript, ast.Attribute)) \
            and unparse(s.targets[0]) not in c.attr_targets:
        p = _path_of(s.targets[0], c, subst)
        if p is not None and p[1]:
            return [f"SSetPath {cstr(p[0])} [{'; '.join(p[1])}] {expr(s.value, c, subst)}"]
    if isinstance(s, ast.Expr) and isinstance(s.value, ast.Call) and not s.value.keywords and isinstance(s.value.func, ast.Name):
        f, a = s.value.func.id, s.value.args
        if f == "setattr" and len(a) == 3 and isinstance(a[0], ast.Name) and a[0].id not in subst and a[0].id not in c.views:
            return [f"SSetPath {cstr(a[0].id)} [(true, {expr(a[1], c, subst)})] {expr(a[2], c, subst)}"]
        if f == "delattr" and len(a) == 2 and isinstance(a[0], ast.Name) and a[0].id not in subst and a[0].id not in c.views:
            return [f"SDelAttr {cstr(a[0].id)} {expr(a[1], c, subst)}"]
    if isinstance(s, ast.Delete) and len(s.targets) == 1 and isinstance(s.targets[0], ast.Subscript) \
            and isinstance(s.targets[0].value, ast.Name) and not isinstance(s.targets[0].slice, ast.Slice):
        x = s.targets[0].value.id
        if x in subst:
            raise Unrecognised("del on a substituted parameter")
        if x in c.views:
            return [f"SDelAttr {cstr(c.views[x])} {expr(s.targets[0].slice, c, subst)}"]
        return [f"SDelItem {cstr(x)} {expr(s.targets[0].slice, c, subst)}"]
    # x1, ..., xn = e
    if isinstance(s, ast.Assign) and len(s.targets) == 1 and isinstance(s.targets[0], ast.Tuple) \
            and all(isinstance(e, ast.Name) and e.id not in subst for e in s.targets[0].elts) and len(s.targets[0].elts) >= 2:
        names = [e.id for e in s.targets[0].elts]
        if len(set(names)) != len(names) and not (c.strings and len({x for x in names if x != "_"}) == len([x for x in names if x != "_"])):
            raise Unrecognised("unpacking into a repeated name")
        for x in names:
            c.note(x)
        return [f"SUnpack [{'; '.join(cstr(x) for x in names)}] {expr(s.value, c, subst)}"]
    # loops
    if isinstance(s, ast.For) and not s.orelse:
        if isinstance(s.target, ast.Tuple) and len(s.target.elts) == 2 and all(isinstance(e, ast.Name) for e in s.target.elts):
            x, y = (e.id for e in s.target.elts)
            c.note(x)
            c.note(y)
            return [f"SFor2 {cstr(x)} {cstr(y)} {expr(s.iter, c, subst)} [{'; '.join(block(s.body, c, subst))}]"]
        if isinstance(s.target, ast.Name) and _has_own_continue(s.body):
            c.note(s.target.id)
            return [f"SForC {cstr(s.target.id)} {expr(s.iter, c, subst)} [{'; '.join(block(s.body, c, subst))}]"]
    # a call of a dumped procedure: f(p1=a1, ...) as a statement
    if isinstance(s, ast.Expr) and isinstance(s.value, ast.Call) and isinstance(s.value.func, ast.Name) and s.value.func.id in c.procs:
        return [proc_call(s.value, c, subst)]
    return None


def proc_call(call, c: Ctx, subst, ret=None) -> str:
    fn, cc, self_arg = c.procs[unparse(call.func)]
    params = [a.arg for a in fn.args.posonlyargs + fn.args.args]
    if fn.args.vararg or fn.args.kwarg or fn.args.kwonlyargs:
        raise Unrecognised(f"procedure {fn.name}: only plain parameters")
    dflt = dict(zip(params[len(params) - len(fn.args.defaults):], fn.args.defaults))
    given = {}
    if self_arg is not None:
        given[params[0]] = call.func.value if isinstance(call.func, ast.Attribute) else call.func
    free = [p for p in params if p not in given]
    if len(call.args) > len(free) or any(isinstance(a, ast.Starred) for a in call.args):
        raise Unrecognised(f"call of {fn.name}: positional arguments")
    for p, a in zip(free, call.args):
        given[p] = a
    for kw in call.keywords:
        if kw.arg is None or kw.arg not in params or kw.arg in given:
            raise Unrecognised(f"call of {fn.name}: keyword {kw.arg}")
        given[kw.arg] = kw.value
    ins = []
    for p in params:
        if p in given:
            ins.append((p, given[p]))
        elif p in dflt:
            ins.append((p, dflt[p]))
        else:
            raise Unrecognised(f"call of {fn.name}: no argument for {p}")
    cc.assigned = []
    caller_mutated = getattr(c, "caller_mutated", {})
    extra = [p for p, a in ins if isinstance(a, ast.Name) and c.views.get(a.id, a.id) in caller_mutated]
    body = checked_block(fn.body, cc, extra)
    mutated = mutated_names(fn.body, cc)
    outs, seen = [], set()
    for p, a in ins:
        if p in mutated:
            if not isinstance(a, ast.Name) or a.id in subst:
                raise Unrecognised(f"call of {fn.name}: it mutates {p}, the argument must be a variable")
            x = c.views.get(a.id, a.id)
            if x in seen:
                raise Unrecognised(f"aliasing: call of {fn.name} with the same variable {x} for two mutated parameters")
            seen.add(x)
            outs.append((p, x))
    ins_txt = "; ".join(f"({cstr(p)}, {expr(a, c, subst)})" for p, a in ins)
    outs_txt = "; ".join(f"({cstr(p)}, {cstr(x)})" for p, x in outs)
    if c.refs is not None and cc.refs is not None:           # the store of referenced objects goes in, and comes back when the callee updates it
        if cc.refs[0] != c.refs[0]:
            raise Unrecognised("caller and callee use different stores")
        ins_txt = "; ".join([f"({cstr(c.refs[0])}, (EVar {cstr(c.refs[0])}))"] + ([ins_txt] if ins_txt else []))
        if c.refs[0] in mutated:
            outs_txt = "; ".join([f"({cstr(c.refs[0])}, {cstr(c.refs[0])})"] + ([outs_txt] if outs_txt else []))
    if ret is not None:
        return f"SCallRet {cstr(ret)} [{'; '.join(body)}] [{ins_txt}] [{outs_txt}]"
    return f"SCall [{'; '.join(body)}] [{ins_txt}] [{outs_txt}]"


def _is_fromkeys(n):
    return isinstance(n, ast.Call) and unparse(n.func) == "dict.fromkeys" and len(n.args) == 1 and not n.keywords


def dedupe(n, c: Ctx, subst) -> str:
    a = n.args[0]
    if isinstance(a, ast.GeneratorExp) and len(a.generators) == 1:
        g = a.generators[0]
        if isinstance(g.target, ast.Tuple) and len(g.target.elts) == 2 and all(isinstance(e, ast.Name) for e in g.target.elts) \
                and isinstance(g.iter, ast.Call) and unparse(g.iter.func) == "zip" and len(g.iter.args) == 2 and not g.ifs:
            x, y = (e.id for e in g.target.elts)
            return (f"(EDedupe (EComp2 {expr(a.elt, c, subst)} {cstr(x)} {cstr(y)} "
                    f"{expr(g.iter.args[0], c, subst)} {expr(g.iter.args[1], c, subst)}))")
    return f"(EDedupe {expr(a, c, subst)})"


def block(body, c: Ctx, subst=None) -> list[str]:
    out = []
    for s in clean(body):
        out += stmt(s, c, subst)
    return out


def _own_exprs(s):
    """The expressions a statement evaluates itself (not those of the statements nested in it)."""
    if isinstance(s, (ast.If,)):
        return [("test", s.test)]
    if isinstance(s, ast.For):
        return [("iter", s.iter)]
    if isinstance(s, (ast.Assign, ast.AugAssign, ast.Return, ast.Expr)) or (isinstance(s, ast.AnnAssign) and s.value is not None):
        return [("value", s.value)] if s.value is not None else []
    if isinstance(s, ast.Assert):
        return [("test", s.test)]
    return []


def hoist_calls(s, c: Ctx, subst):
    """Calls of dumped procedures inside the statement's own expressions: ([SCallRet ..], the statement with variables in their place)."""
    import copy
    if isinstance(s, ast.While) and any(isinstance(m, ast.Call) and isinstance(m.func, ast.Name) and m.func.id in c.procs for m in ast.walk(s.test)):
        raise Unrecognised("a dumped procedure is called in the test of a while loop")
    own = _own_exprs(s)
    if not any(isinstance(m, ast.Call) and isinstance(m.func, ast.Name) and m.func.id in c.procs for _, e in own for m in ast.walk(e)):
        return [], s
    if isinstance(s, ast.Assign) and isinstance(s.value, ast.Call) and isinstance(s.value.func, ast.Name) and s.value.func.id in c.procs \
            and len(s.targets) == 1 and isinstance(s.targets[0], ast.Name) \
            and not any(isinstance(m, ast.Call) and isinstance(m.func, ast.Name) and m.func.id in c.procs for a in s.value.args for m in ast.walk(a)):
        return [], s                                  # t = f(..): the direct form
    s2 = copy.deepcopy(s)
    pre = []

    class H(ast.NodeTransformer):
        def __init__(self):
            self.cond = 0

        def visit_BoolOp(self, node):
            node.values[0] = self.visit(node.values[0])
            self.cond += 1
            node.values[1:] = [self.visit(v) for v in node.values[1:]]
            self.cond -= 1
            return node

        def visit_IfExp(self, node):
            node.test = self.visit(node.test)
            self.cond += 1
            node.body, node.orelse = self.visit(node.body), self.visit(node.orelse)
            self.cond -= 1
            return node

        def visit_Lambda(self, node):
            raise Unrecognised("lambda around a call of a dumped procedure")

        def visit_ListComp(self, node):
            if any(isinstance(m, ast.Call) and isinstance(m.func, ast.Name) and m.func.id in c.procs for m in ast.walk(node)):
                raise Unrecognised("a dumped procedure is called inside a comprehension")
            return node
        visit_GeneratorExp = visit_SetComp = visit_DictComp = visit_ListComp

        def visit_Call(self, node):
            self.generic_visit(node)
            if isinstance(node.func, ast.Name) and node.func.id in c.procs and node.func.id not in subst:
                if self.cond and not all(isinstance(a, (ast.Name, ast.Constant)) for a in list(node.args) + [k.value for k in node.keywords]):
                    raise Unrecognised("a conditionally evaluated call of a dumped procedure must have plain names as arguments")
                c.hoist_n += 1
                tmp = f"{node.func.id}#{c.hoist_n}"
                c.note(tmp)
                pre.append(proc_call(node, c, subst, ret=tmp))
                return ast.copy_location(ast.Name(id=tmp, ctx=ast.Load()), node)
            return node
    h = H()
    for field, _ in own:
        setattr(s2, field, h.visit(getattr(s2, field)))
    return pre, s2


def stmt(s, c: Ctx, subst=None) -> list[str]:
    subst = subst or {}
    if c.hoist:
        pre, s2 = hoist_calls(s, c, subst)
        if pre:
            return pre + stmt(s2, c, subst)
    if c.strings and isinstance(s, ast.AugAssign) and isinstance(s.op, ast.Sub) and isinstance(s.target, ast.Name) and s.target.id not in subst:
        return [f"SAssign {cstr(s.target.id)} (ESub (EVar {cstr(s.target.id)}) {expr(s.value, c, subst)})"]
    if c.objects:
        r = stmt4(s, c, subst)
        if r is not None:
            return r
    if isinstance(s, ast.FunctionDef):
        if s.args.defaults or s.args.kwonlyargs or s.args.vararg or s.args.kwarg:
            raise Unrecognised(f"local def {s.name}: only plain positional parameters")
        params = {a.arg for a in s.args.args}
        for n in ast.walk(s):
            if isinstance(n, ast.Return):
                raise Unrecognised(f"local def {s.name}: a return inside an inlined def would leave the enclosing method")
            if isinstance(n, ast.Name) and isinstance(n.ctx, ast.Store) and n.id in params:
                raise Unrecognised(f"local def {s.name}: assigns its parameter {n.id} (inlining substitutes the argument)")
        c.local_defs[s.name] = s
        return []
    if isinstance(s, ast.AnnAssign) and isinstance(s.target, ast.Name) and s.value is not None:
        c.note(s.target.id)
        return [f"SAssign {cstr(s.target.id)} {expr(s.value, c, subst)}"]
    if isinstance(s, ast.Assign) and len(s.targets) == 1 and isinstance(s.targets[0], ast.Name):
        c.note(s.targets[0].id)
        return [f"SAssign {cstr(s.targets[0].id)} {expr(s.value, c, subst)}"]
    if isinstance(s, ast.Return) and s.value is not None:
        return [f"SReturn {expr(s.value, c, subst)}"]
    if isinstance(s, ast.If):
        th = block(s.body, c, subst)
        el = block(s.orelse, c, subst)
        return [f"SIf {expr(s.test, c, subst)} [{'; '.join(th)}] [{'; '.join(el)}]"]
    if isinstance(s, ast.For) and isinstance(s.target, ast.Name) and not s.orelse:
        c.note(s.target.id)
        return [f"SFor {cstr(s.target.id)} {expr(s.iter, c, subst)} [{'; '.join(block(s.body, c, subst))}]"]
    if isinstance(s, ast.Expr) and isinstance(s.value, ast.Call):
        call = s.value
        f = call.func
        if isinstance(f, ast.Attribute) and isinstance(f.value, ast.Name) and len(call.args) == 1 and not call.keywords:
            tgt = f.value.id
            tgt_e = subst.get(tgt)
            if tgt_e is not None:
                raise Unrecognised("mutation of a substituted parameter")
            if f.attr == "append":
                return [f"SAppend {cstr(tgt)} {expr(call.args[0], c, subst)}"]
            if f.attr == "extend":
                return [f"SExtend {cstr(tgt)} {expr(call.args[0], c, subst)}"]
        if isinstance(f, ast.Name) and f.id in c.local_defs and not call.keywords:
            d = c.local_defs[f.id]
            params = [a.arg for a in d.args.args]
            if len(params) != len(call.args):
                raise Unrecognised(f"call of local def {f.id}: arity")
            new = dict(subst)
            for p, a in zip(params, call.args):
                if not isinstance(a, (ast.Name, ast.Constant)):
                    raise Unrecognised(f"call of local def {f.id}: argument {unparse(a)} is not a name or constant")
                new[p] = expr(a, c, subst)
            return block(d.body, c, new)
    # ---- second group (BooleanOptionalAction.__init__) ----
    if isinstance(s, (ast.Assign, ast.AnnAssign)) and getattr(s, "value", None) is not None:
        tgts = s.targets if isinstance(s, ast.Assign) else [s.target]
        if len(tgts) == 1 and isinstance(tgts[0], ast.Attribute) and unparse(tgts[0]) in c.attr_targets:
            c.note(unparse(tgts[0]))
            return [f"SAssign {cstr(unparse(tgts[0]))} {expr(s.value, c, subst)}"]
        if isinstance(s, ast.Assign) and len(tgts) == 1 and isinstance(tgts[0], ast.Tuple) and len(tgts[0].elts) == 3:
            a, m, b = tgts[0].elts
            if isinstance(a, ast.Name) and isinstance(b, ast.Name) and isinstance(m, ast.Starred) and isinstance(m.value, ast.Name) \
                    and not ({a.id, m.value.id, b.id} & set(subst)):
                for x in (a.id, m.value.id, b.id):
                    c.note(x)
                return [f"SUnpack3 {cstr(a.id)} {cstr(m.value.id)} {cstr(b.id)} {expr(s.value, c, subst)}"]
    if isinstance(s, ast.Assert) and (s.msg is None or (isinstance(s.msg, ast.Constant) and isinstance(s.msg.value, str))):
        return [f"SAssert {expr(s.test, c, subst)}"]       # the message is not modelled
    if isinstance(s, ast.Raise) and s.cause is None and isinstance(s.exc, ast.Call) and isinstance(s.exc.func, (ast.Name, ast.Attribute)) \
            and not s.exc.keywords and all(isinstance(a, (ast.Constant, ast.JoinedStr)) for a in s.exc.args):
        for a in s.exc.args:  # the message is not modelled, but it must be a pure string expression of the fragment's variables
            for v in (a.values if isinstance(a, ast.JoinedStr) else []):
                if isinstance(v, ast.FormattedValue) and not isinstance(v.value, (ast.Name, ast.Constant)):
                    expr(v.value, c, subst)   # raises Unrecognised unless it is an expression of the fragment
        cls = s.exc.func.id if isinstance(s.exc.func, ast.Name) else s.exc.func.attr   # utils.SomeError -> "SomeError"
        return [f"SRaise {cstr(cls)}"]
    if isinstance(s, ast.Expr) and isinstance(s.value, ast.Call) and isinstance(s.value.func, ast.Attribute) \
            and unparse(s.value.func.value) in c.attr_targets and len(s.value.args) == 1 and not s.value.keywords:
        tgt = unparse(s.value.func.value)
        if s.value.func.attr == "append":
            return [f"SAppend {cstr(tgt)} {expr(s.value.args[0], c, subst)}"]
        if s.value.func.attr == "extend":
            return [f"SExtend {cstr(tgt)} {expr(s.value.args[0], c, subst)}"]
    raise Unrecognised(f"statement outside the MiniPy fragment: {unparse(s)[:100]}")


# ---- aliasing -------------------------------------------------------------------------------------------------------------
# Python lists are shared references, MiniPy values are copies: `b = a; a.append(1); return b` differs.  The fragment therefore
# only admits lists that are mutated (append / extend) as FLAT ACCUMULATORS: a mutated name is bound only to freshly built lists
# and its object is never stored anywhere else (another name, a list display, an appended element, a call argument); it may be
# read where only its contents are consumed (len, in, ==, slices, +, iteration that does not mutate it, extend's argument,
# join, sorted, list(), conditions) and returned.  Everything else fails closed.
_MUTATORS = ("append", "extend", "pop", "remove", "add")
_CONSUMING_CALLS = ("len", "sorted", "list", "zip", "dict.fromkeys", "isinstance", "hasattr", "getattr", "vars")


def _vname(node, c: Ctx):
    if isinstance(node, ast.Name):
        return node.id
    if isinstance(node, ast.Attribute) and unparse(node) in c.attr_vars:
        return unparse(node)
    return None


def _fresh_list(v) -> bool:
    if isinstance(v, (ast.List, ast.ListComp)):
        return True
    if isinstance(v, ast.BinOp) and isinstance(v.op, (ast.Add, ast.Mult)):
        return True
    if isinstance(v, ast.Subscript) and isinstance(v.slice, ast.Slice):
        return True
    if isinstance(v, ast.Dict):
        return True
    if isinstance(v, ast.Call):
        f = unparse(v.func)
        if isinstance(v.func, ast.Attribute) and v.func.attr == "pop" and len(v.args) == 1 and not v.keywords:
            return True                           # x = d.pop(k): the object leaves its container
        if f in ("set", "defaultdict") and (not v.args or unparse(v) == "defaultdict(list)"):
            return True
        return f in ("sorted", "list") or (isinstance(v.func, ast.Attribute) and v.func.attr in ("split", "copy") and not v.args)
    return False


def _store_root(t, c: Ctx):
    """x for a store target x[k].. / x.a.. (None for a plain name or an attribute that is a variable of its own)."""
    depth = 0
    while isinstance(t, (ast.Subscript, ast.Attribute)) and unparse(t) not in c.attr_vars:
        t = t.value
        depth += 1
    nm = _vname(t, c)
    if depth and nm is not None and c.refs is not None and nm in c.refs[1]:
        return (c.refs[0], depth + 1)             # through a reference: the store changes
    return (nm, depth) if depth and nm is not None else (None, 0)


def mutated_names(body, c: Ctx, views=None) -> dict:
    """name -> deepest mutation path (1: the object itself is changed, 2: an object stored inside it is changed)."""
    views = views if views is not None else _views_of(body)
    out = {}

    def add(nm, depth=1):
        nm = views.get(nm, nm)
        out[nm] = max(out.get(nm, 0), depth)
    for n in ast.walk(ast.Module(body=list(body), type_ignores=[])):
        if isinstance(n, ast.Call) and isinstance(n.func, ast.Attribute) and n.func.attr in _MUTATORS:
            t = _vname(n.func.value, c)
            if t is not None:
                add(t)
        if isinstance(n, (ast.Assign, ast.AnnAssign, ast.AugAssign, ast.Delete)):
            for t in (n.targets if isinstance(n, (ast.Assign, ast.Delete)) else [n.target]):
                nm, depth = _store_root(t, c)
                if nm is not None:
                    add(nm, depth)
        if isinstance(n, ast.Call) and unparse(n.func) in ("setattr", "delattr") and n.args and _vname(n.args[0], c):
            add(_vname(n.args[0], c))
        if isinstance(n, ast.Call) and unparse(n.func) in c.procs:
            fn, cc, self_arg = c.procs[unparse(n.func)]
            inner = mutated_names(fn.body, cc)
            if c.refs is not None and cc.refs is not None and cc.refs[0] in inner:
                add(c.refs[0], inner[cc.refs[0]])
            for kw in n.keywords:
                if kw.arg in inner and _vname(kw.value, c):
                    add(_vname(kw.value, c), inner[kw.arg])
            prm = [a.arg for a in fn.args.posonlyargs + fn.args.args][(1 if self_arg is not None else 0):]
            for pname, a in zip(prm, n.args):
                if pname in inner and _vname(a, c):
                    add(_vname(a, c), inner[pname])
    return out


def _views_of(body) -> dict:
    v = {}
    for n in ast.walk(ast.Module(body=list(body), type_ignores=[])):
        if isinstance(n, ast.Assign) and len(n.targets) == 1 and isinstance(n.targets[0], ast.Name) and isinstance(n.value, ast.Call) \
                and unparse(n.value.func) == "vars" and len(n.value.args) == 1 and isinstance(n.value.args[0], ast.Name):
            v[n.targets[0].id] = n.value.args[0].id
    return v


def alias_check(body, c: Ctx, extra=()) -> None:
    root = ast.Module(body=list(body), type_ignores=[])
    parent = {}
    for n in ast.walk(root):
        for ch in ast.iter_child_nodes(n):
            parent[ch] = n
    views = _views_of(body)
    depth_of = mutated_names(body, c, views)
    for x in extra:
        depth_of.setdefault(x, 1)
    mutated = set(depth_of)
    for x, y in views.items():          # the view and its object are ONE variable: neither is ever bound again
        if y in mutated:
            mutated.add(x)
        for n in ast.walk(root):
            if isinstance(n, ast.Name) and isinstance(n.ctx, ast.Store) and n.id in (x, y):
                p = parent.get(n)
                if not (isinstance(p, ast.Assign) and p.value is not None and isinstance(p.value, ast.Call) and unparse(p.value.func) == "vars"):
                    raise Unrecognised(f"aliasing: {n.id} is bound again although {x} = vars({y}) is a live view")
    if not mutated:
        return

    def bad(name, why):
        raise Unrecognised(f"aliasing: the list {name} is mutated (append/extend) and {why}" if True else "")

    def mutates(stmts, name):
        for s in stmts:
            for n in ast.walk(s):
                if isinstance(n, ast.Call) and isinstance(n.func, ast.Attribute) and n.func.attr in _MUTATORS \
                        and _vname(n.func.value, c) == name:
                    return True
        return False

    # bindings of a mutated name: plain assignments of freshly built lists only
    for n in ast.walk(root):
        binds = []
        if isinstance(n, ast.Assign):
            binds = [(t, n.value) for t in n.targets]
        elif isinstance(n, ast.AnnAssign) and n.value is not None:
            binds = [(n.target, n.value)]
        elif isinstance(n, (ast.For, ast.comprehension)):
            binds = [(n.target, None)]
        for t, v in binds:
            direct = _vname(t, c)
            if direct in mutated:
                if direct in views and v is not None and isinstance(v, ast.Call) and unparse(v.func) == "vars":
                    continue
                if v is None or not (_fresh_list(v) or (isinstance(v, ast.Call) and unparse(v.func) in c.kw_ctors)):
                    bad(direct, "is bound to a value that may be shared with another name")
                if isinstance(v, ast.Call) and isinstance(v.func, ast.Attribute) and v.func.attr == "copy" and depth_of.get(direct, 0) >= 2:
                    # a shallow copy shares the inner objects: the original must be dead from here on
                    src_name = _vname(v.func.value, c)
                    if src_name is None:
                        bad(direct, "is a shallow copy of an expression and objects inside it are mutated")
                    if src_name == direct:
                        continue                  # x = x.copy(): the original is not reachable by name any more
                    for m in ast.walk(root):
                        if isinstance(m, (ast.Name, ast.Attribute)) and _vname(m, c) == src_name and m is not v.func.value \
                                and getattr(m, "lineno", 0) >= n.lineno:
                            bad(direct, f"is a shallow copy of {src_name}, which is used again afterwards, while objects inside it are mutated")
                continue
            if _store_root(t, c)[0] is not None:
                continue                      # x[k] = .. / x.a = ..: a mutation of x, not a binding
            for leaf in ast.walk(t):
                nm = _vname(leaf, c) if isinstance(leaf, (ast.Name, ast.Attribute)) else None
                if nm in mutated:
                    if isinstance(n, ast.For) and not any(
                            isinstance(m, ast.Call) and isinstance(m.func, ast.Attribute) and m.func.attr in _MUTATORS
                            and _vname(m.func.value, c) == nm and getattr(m, "lineno", 0) >= n.lineno for m in ast.walk(root)):
                        continue                  # the name is re-used as a loop variable after its last mutation
                    bad(nm, "is bound by unpacking / as a loop or comprehension variable")
        if isinstance(n, ast.FunctionDef):
            for a in n.args.args:
                if a.arg in mutated:
                    bad(a.arg, "is a parameter of a local def")

    # a loop must not change what it iterates (a list: the iteration would see the change; a dict: RuntimeError in CPython)
    for n in ast.walk(root):
        if isinstance(n, ast.For):
            inner = mutated_names(n.body, c, views)
            for m in ast.walk(n.iter):
                nm = _vname(m, c) if isinstance(m, (ast.Name, ast.Attribute)) else None
                if nm is not None and views.get(nm, nm) in inner:
                    bad(nm, "is iterated (directly or through .keys() / .items() / zip) by a loop whose body mutates it")

    # uses of a mutated name: only where its contents are consumed
    def consumed(node, name):
        p = parent.get(node)
        deep = depth_of.get(views.get(name, name), 0) >= 2       # objects stored INSIDE name are mutated: reading one out must not keep it
        if isinstance(p, ast.Attribute):                       # name.method(..) / name.attribute (an object inside it, like name[k])
            call = parent.get(p)
            is_call = isinstance(call, ast.Call) and call.func is p
            if not deep or isinstance(p.ctx, (ast.Store, ast.Del)) or (is_call and p.attr in _MUTATORS + ("copy", "keys", "items", "values")):
                return True
            return consumed(call if is_call else p, name)
        if isinstance(p, ast.Subscript) and p.value is node and deep and isinstance(p.ctx, ast.Load):
            return consumed(p, name)
        if isinstance(p, ast.Call):
            f = unparse(p.func)
            if node in p.args:
                if f in _CONSUMING_CALLS or f in c.prims or f in c.procs or f in ("set", "filter", "enumerate"):
                    return True
                if f in c.record_ctors:           # a new object keeps its arguments: fine only when it is returned at once
                    return isinstance(parent.get(p), ast.Return)
                if isinstance(p.func, ast.Attribute) and p.func.attr in ("extend", "join"):
                    return True
                if f in ("setattr", "delattr") and p.args[0] is node:
                    return True
            return False
        if isinstance(p, ast.keyword):
            call = parent.get(p)
            if isinstance(call, ast.Call) and isinstance(call.func, ast.Name) and call.func.id in c.procs:
                return True                 # an argument of a dumped procedure: proc_call checks the callee with this parameter as mutated
            if isinstance(call, ast.Call) and unparse(call.func) in c.tables and p.arg is None:
                return True                 # f(**kwargs) of an uninterpreted pure function: the dict itself is not kept
            if isinstance(call, ast.Call) and unparse(call.func) == "argparse.Namespace" and p.arg is None:
                return True                 # Namespace(**view): a new object
            return False
        if isinstance(p, (ast.Compare, ast.UnaryOp, ast.BinOp, ast.FormattedValue, ast.Return)):
            return True
        if isinstance(p, ast.Subscript):
            return p.value is node
        if isinstance(p, ast.comprehension):
            return p.iter is node
        if isinstance(p, ast.For):
            if p.iter is node:
                if mutates(p.body, name):
                    bad(name, "is iterated by a loop whose body mutates it")
                return True
            return False
        if isinstance(p, (ast.If, ast.Assert, ast.While)):
            return p.test is node
        if isinstance(p, ast.IfExp):
            return True if p.test is node else consumed(p, name)
        if isinstance(p, ast.BoolOp):
            return consumed(p, name)
        if isinstance(p, (ast.List, ast.Tuple)):               # a display that is returned at once: nothing runs afterwards
            return isinstance(parent.get(p), ast.Return)
        if isinstance(p, ast.Delete):
            return True
        return False

    # mutate-then-freeze: a name that is bound to a fresh object, mutated only by statements that directly follow the binding in
    # the same block, and stored / passed on only after its last mutation (every later round of an enclosing loop starts with the
    # binding again) is not shared while it changes
    def frozen_after_mutation(nm):
        blocks = [b for n in ast.walk(root) for b in (getattr(n, "body", None), getattr(n, "orelse", None)) if isinstance(b, list)]
        cands = []
        for b in blocks:
            idx = [i for i, st in enumerate(b) if isinstance(st, (ast.Assign, ast.AnnAssign)) and getattr(st, "value", None) is not None
                   and any(_vname(t, c) == nm for t in (st.targets if isinstance(st, ast.Assign) else [st.target]))]
            if len(idx) == 1:
                cands.append((b, idx[0]))
        if not cands:
            return False
        if len(cands) > 1:
            # several blocks (the arms of an if/elif chain), each with its own binding: every use must follow the binding of its block
            for b, bi in cands:
                if any(isinstance(m, (ast.Name, ast.Attribute)) and _vname(m, c) == nm for st in b[:bi] for m in ast.walk(st)):
                    return False
        else:
            cands = cands[:1]
        inside = {id(m) for b, _ in cands for st in b for m in ast.walk(st)}
        if any(isinstance(m, (ast.Name, ast.Attribute)) and _vname(m, c) == nm and id(m) not in inside for m in ast.walk(root)):
            return False                # used outside these blocks
        for b, bi in cands:
            muts = [i for i, st in enumerate(b) if nm in mutated_names([st], c, views)]
            keeps = [i for i, st in enumerate(b) if i != bi and any(
                isinstance(m, (ast.Name, ast.Attribute)) and isinstance(getattr(m, "ctx", None), ast.Load) and _vname(m, c) == nm
                and not (isinstance(parent.get(m), ast.Attribute) and _vname(parent[m], c) in mutated) and not consumed(m, nm)
                for m in ast.walk(st))]
            if not (all(bi < i for i in muts) and (not keeps or not muts or max(muts) < min(keeps))):
                return False
        return True

    for n in ast.walk(root):
        if isinstance(n, (ast.Name, ast.Attribute)) and isinstance(getattr(n, "ctx", None), ast.Load):
            nm = _vname(n, c)
            if nm in mutated and not (isinstance(parent.get(n), ast.Attribute) and _vname(parent[n], c) in mutated):
                if not consumed(n, nm) and not frozen_after_mutation(nm):
                    bad(nm, f"its object is stored or passed on in `{unparse(parent.get(n))[:60]}`")


def fromkeys_check(body, c: Ctx) -> None:
    """dict.fromkeys(..) is a dict; the interpreter reads it as the list of its distinct keys.  That is the same thing only
    where the dict is merely iterated: as the argument of list / sorted / len / zip / join, as the iterable of a for or a
    comprehension, as the right operand of in - directly or through a name that is bound to nothing else."""
    root = ast.Module(body=list(body), type_ignores=[])
    parent = {}
    for n in ast.walk(root):
        for ch in ast.iter_child_nodes(n):
            parent[ch] = n
    dict_names = set()
    for n in ast.walk(root):
        if isinstance(n, ast.Assign) and _is_fromkeys(n.value) and len(n.targets) == 1 and isinstance(n.targets[0], ast.Name):
            dict_names.add(n.targets[0].id)

    def iterated_only(node):
        p = parent.get(node)
        if isinstance(p, ast.Call) and node in p.args:
            return unparse(p.func) in ("list", "sorted", "len", "zip") or (isinstance(p.func, ast.Attribute) and p.func.attr == "join")
        if isinstance(p, (ast.For, ast.comprehension)):
            return p.iter is node
        if isinstance(p, ast.Compare):
            return len(p.ops) == 1 and isinstance(p.ops[0], (ast.In, ast.NotIn)) and p.comparators[0] is node
        return False

    for n in ast.walk(root):
        # d.keys() / d.values() / d.items() / zip(..) / vars(o) are live views or iterators: admitted only where they are merely iterated
        is_view = isinstance(n, ast.Call) and not n.keywords and (
            (isinstance(n.func, ast.Attribute) and n.func.attr in ("keys", "values", "items") and not n.args)
            or (unparse(n.func) == "zip" and len(n.args) == 2) or (unparse(n.func) == "vars" and len(n.args) == 1))
        if is_view and c.objects:
            p = parent.get(n)
            if unparse(n.func) == "vars" and isinstance(p, ast.Assign) and p.value is n and len(p.targets) == 1 and isinstance(p.targets[0], ast.Name):
                continue                     # X = vars(Y): the view idiom (one variable)
            if not iterated_only(n):
                raise Unrecognised(f"`{unparse(n)[:40]}` is a live view / iterator used as a value in `{unparse(p)[:60]}`")
        if _is_fromkeys(n):
            p = parent.get(n)
            if isinstance(p, ast.Assign) and p.value is n and len(p.targets) == 1 and isinstance(p.targets[0], ast.Name):
                continue
            if not iterated_only(n):
                raise Unrecognised(f"dict.fromkeys(..) used as a value in `{unparse(p)[:60]}`: it is a dict, the interpreter reads it as a list")
        if isinstance(n, ast.Name) and n.id in dict_names:
            if isinstance(n.ctx, ast.Store):
                p = parent.get(n)
                if not (isinstance(p, ast.Assign) and _is_fromkeys(p.value)):
                    raise Unrecognised(f"{n.id} is bound to a dict.fromkeys(..) and to something else")
            elif not iterated_only(n):
                raise Unrecognised(f"{n.id} (a dict.fromkeys(..)) is used as a value in `{unparse(parent.get(n))[:60]}`")


def checked_block(body, c: Ctx, extra=()) -> list[str]:
    alias_check(body, c, extra)
    fromkeys_check(body, c)
    return block(body, c)


def method_block(fn: ast.FunctionDef, c: Ctx) -> tuple[str, list[str]]:
    c.caller_mutated = mutated_names(fn.body, c)
    alias_check(fn.body, c)
    fromkeys_check(fn.body, c)
    ss = block(fn.body, c)
    return "[" + ";\n   ".join(ss) + "]", list(c.assigned)
