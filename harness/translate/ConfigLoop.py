"""Facts for C15 (save() -> config_path loop).

Read from the source, fail closed:
  * encoding.py: the singledispatch registrations of `encode` (class -> body rule) and its fallback (dataclass -> dict, else deepcopy)
  * serializable.py: the `extensions` suffix table with what each extension class loads/dumps with; get_extension (RuntimeError for an
    unknown suffix); save() (to_dict unless already a dict, then format.dump) and read_file() (format.load); Serializable.save -> save;
    to_dict (nested dataclasses recurse, everything else goes through `encode`)
  * field_wrapper.py: FieldWrapper.default tests `self._default is not None` first (None = unset); set_default stores the value;
    get_arg_options' enum arm turns an Enum default into its name; __call__ applies postprocess and stores the result
  * parsing.py: _fill_constructor_arguments_with_fields takes `parsed_arg_values.pop(field.dest, field.default)` and calls the field;
    set_defaults reads the file, re-roots it for WITHOUT_ROOT with one wrapper, and hands each destination's section to
    DataclassWrapper.set_default; parse_known_args applies the config files before _preprocessing
  * dataclass_wrapper.py: set_default distributes a dict by field name to the field wrappers and to the nested wrappers; unknown names
    raise RuntimeError

Output: coq/Gen/FactsConfigLoop.v (imports Model.ConfigLoop for the table types and instantiates the model)."""
from __future__ import annotations

import ast

from .pyast import (Unrecognised, clean, const, cstr, cstrs, find_class, find_def, if_chain, is_logger_call, kw_defaults, module_assign,
                    parse, unparse)


class _DropLogging(ast.NodeTransformer):
    """logger.*(...) statements are behaviour-neutral: removed at every depth before a body is compared"""

    def visit_Expr(self, node):
        return None if is_logger_call(node) else node

    def generic_visit(self, node):
        super().generic_visit(node)
        for attr in ("body", "orelse", "finalbody"):
            if hasattr(node, attr) and isinstance(getattr(node, attr), list) and not getattr(node, attr) and attr == "body":
                node.body = [ast.Pass()]
        return node


def _norm(stmt):
    import copy
    return unparse(_DropLogging().visit(copy.deepcopy(stmt)))


def _body_texts(fn):
    return [_norm(s) for s in clean(fn.body)]


def _walk_stmts(node):
    for n in ast.walk(node):
        if isinstance(n, ast.stmt):
            yield n


def _find_stmt(fn, text, what):
    """the (single) statement of fn (at any depth) whose source is `text`"""
    hits = [s for s in _walk_stmts(fn) if s is not fn and unparse(s) == text]
    if len(hits) != 1:
        raise Unrecognised(f"{what}: statement `{text}` found {len(hits)} times")
    return hits[0]


def _in_order(fn, texts, what):
    prev = -1
    for t in texts:
        s = _find_stmt(fn, t, what)
        if s.lineno <= prev:
            raise Unrecognised(f"{what}: `{t}` is not after the previous step")
        prev = s.lineno


# ---- encoding.py -------------------------------------------------------------------------------------

ENCODE_DICT_BODY = [
    "constructor = type(obj)",
    "result = constructor()",
    "for k, v in obj.items():\n    k_ = encode(k)\n    v_ = encode(v)\n    if isinstance(k_, Hashable):\n        result[k_] = v_\n    else:\n"
    "        if isinstance(result, dict):\n            result = list(result.items())\n        result.append((k_, v_))",
    "return result",
    "return type(obj)(((encode(k), encode(v)) for k, v in obj.items()))",
]
RULES = {
    ("return list(map(encode, obj))",): "ESeq",
    ("return obj.__fspath__()",): "EFspath",
    ("return encode(vars(obj))",): "EVars",
    ("return obj.name",): "EName",
    tuple(ENCODE_DICT_BODY): "EMap",
}
KNOWN_CLASSES = {"list", "tuple", "set", "Mapping", "PathLike", "Namespace", "Enum"}


def _encode_table(enc):
    table = []
    n_register_calls = 0
    for n in ast.walk(enc):
        if isinstance(n, ast.Call) and unparse(n.func) == "encode.register":
            n_register_calls += 1
    seen_in_decorators = 0
    base = None
    for fn in enc.body:
        if not isinstance(fn, ast.FunctionDef):
            continue
        decos = [unparse(d) for d in fn.decorator_list]
        if decos == ["singledispatch"]:
            if fn.name != "encode" or base is not None:
                raise Unrecognised("encoding.py: a second singledispatch function")
            base = fn
            continue
        classes = []
        for d in fn.decorator_list:
            if not (isinstance(d, ast.Call) and unparse(d.func) == "encode.register" and len(d.args) == 1 and not d.keywords
                    and isinstance(d.args[0], ast.Name)):
                raise Unrecognised(f"encoding.py: decorator {unparse(d)} on {fn.name}")
            classes.append(d.args[0].id)
            seen_in_decorators += 1
        if not classes:
            continue
        if len(fn.args.args) != 1 or fn.args.args[0].arg != "obj":
            raise Unrecognised(f"encoding.py: signature of {fn.name}")
        rule = RULES.get(tuple(_body_texts(fn)))
        if rule is None:
            raise Unrecognised(f"encoding.py: body of {fn.name} is not a known rule: {_body_texts(fn)}")
        for c in reversed(classes):          # decorators apply bottom-up; the order is immaterial (distinct classes)
            if c not in KNOWN_CLASSES:
                raise Unrecognised(f"encoding.py: encode registered for a class the model does not know: {c}")
            if c in [x for x, _ in table]:
                raise Unrecognised(f"encoding.py: encode registered twice for {c}")
            table.append((c, rule))
    if seen_in_decorators != n_register_calls:
        raise Unrecognised("encoding.py: encode.register used other than as a decorator")
    if base is None:
        raise Unrecognised("encoding.py: singledispatch function encode not found")
    # fallback: dataclass -> dict of encoded fields, anything else -> copy.deepcopy(obj)
    body = clean(base.body)
    if len(body) != 1 or not isinstance(body[0], ast.Try):
        raise Unrecognised("encode: fallback body is not a single try")
    inner = clean(body[0].body)
    if len(inner) != 1 or not isinstance(inner[0], ast.If) or unparse(inner[0].test) != "is_dataclass(obj)":
        raise Unrecognised("encode: fallback does not start with `if is_dataclass(obj)`")
    if [unparse(s) for s in clean(inner[0].orelse)] != ["return copy.deepcopy(obj)"]:
        raise Unrecognised("encode: fallback for non-dataclasses is not `return copy.deepcopy(obj)`")
    return table


# ---- serializable.py ---------------------------------------------------------------------------------

def _codec_of_class(ser, cls_name):
    c = find_class(ser, cls_name)
    texts = [unparse(s) for s in clean(c.body)]
    if cls_name == "JSONExtension" and texts == ["load = staticmethod(json.load)", "dump = staticmethod(json.dump)"]:
        return "CJson"
    if cls_name == "PickleExtension" and texts == [
            "binary: ClassVar[bool] = True",
            "load: ClassVar[Callable[[IO], Any]] = staticmethod(pickle.load)",
            "dump: ClassVar[Callable[[Any, IO[bytes]], None]] = staticmethod(pickle.dump)"]:
        return "CPickle"
    if cls_name == "YamlExtension":
        load = [unparse(s) for s in clean(find_def(ser, "load", cls=cls_name).body)]
        dump = [unparse(s) for s in clean(find_def(ser, "dump", cls=cls_name).body)]
        if load == ["import yaml", "return yaml.safe_load(io)"] and dump == ["import yaml", "return yaml.dump(obj, io, **kwargs)"] \
                and len(clean(c.body)) == 2:
            return "CYaml"
        raise Unrecognised(f"YamlExtension: load={load} dump={dump}")
    if cls_name in ("JSONExtension", "PickleExtension"):
        raise Unrecognised(f"{cls_name}: body changed: {texts}")
    return f"(COther {cstr(cls_name)})"


def _extensions(ser):
    d = module_assign(ser, "extensions")
    if not isinstance(d, ast.Dict):
        raise Unrecognised("extensions is not a dict literal")
    rows = []
    for k, v in zip(d.keys, d.values):
        suffix = const(k, str)
        if not (isinstance(v, ast.Call) and isinstance(v.func, ast.Name) and not v.args and not v.keywords):
            raise Unrecognised(f"extensions[{suffix!r}] = {unparse(v)}")
        rows.append((suffix, _codec_of_class(ser, v.func.id)))
    if len({s for s, _ in rows}) != len(rows):
        raise Unrecognised("extensions: duplicate suffix")
    # later writes to the table would go unnoticed
    for n in ast.walk(ser):
        if isinstance(n, (ast.Assign, ast.AugAssign, ast.Delete)):
            targets = n.targets if isinstance(n, (ast.Assign, ast.Delete)) else [n.target]
            for t in targets:
                if isinstance(t, ast.Subscript) and unparse(t.value) == "extensions":
                    raise Unrecognised("extensions is modified after its definition")
        if isinstance(n, ast.Call) and unparse(n.func) in ("extensions.update", "extensions.pop", "extensions.setdefault", "extensions.clear"):
            raise Unrecognised("extensions is modified after its definition")
    return rows


def _check_save_and_read(ser):
    ge = _body_texts(find_def(ser, "get_extension"))
    if len(ge) != 2 or ge[0] != "path = Path(path)" or not ge[1].startswith(
            "if path.suffix in extensions:\n    return extensions[path.suffix]\nelse:\n    raise RuntimeError("):
        raise Unrecognised(f"get_extension body: {ge}")
    sv = find_def(ser, "save")
    want = ["if not isinstance(obj, dict):\n    obj = to_dict(obj, save_dc_types=save_dc_types)",
            "if format is None:\n    format = get_extension(path)",
            "with open(path, mode='wb' if format.binary else 'w') as f:\n    return format.dump(obj, f, **kwargs)"]
    if _body_texts(sv) != want:
        raise Unrecognised(f"save body: {_body_texts(sv)}")
    d = kw_defaults(sv)
    if unparse(d.get("save_dc_types", ast.Constant(None))) != "False" or unparse(d.get("format", ast.Constant(0))) != "None":
        raise Unrecognised("save: defaults of save_dc_types / format")
    rf = _body_texts(find_def(ser, "read_file"))
    if rf != ["format = get_extension(path)", "with open(path, mode='rb' if format.binary else 'r') as f:\n    return format.load(f)"]:
        raise Unrecognised(f"read_file body: {rf}")
    ms = _body_texts(find_def(ser, "save", cls="SerializableMixin"))
    if ms != ["save(self, path=path, format=format)"]:
        raise Unrecognised(f"SerializableMixin.save body: {ms}")
    mt = _body_texts(find_def(ser, "to_dict", cls="SerializableMixin"))
    if mt != ["return to_dict(self, dict_factory=dict_factory, recurse=recurse, save_dc_types=save_dc_types)"]:
        raise Unrecognised(f"SerializableMixin.to_dict body: {mt}")
    # to_dict: per field, nested dataclasses recurse, everything else goes through encode; the key is the field name
    td = find_def(ser, "to_dict")
    loops = [s for s in clean(td.body) if isinstance(s, ast.For)]
    if len(loops) != 1 or unparse(loops[0].target) != "f" or unparse(loops[0].iter) != "fields(dc)":
        raise Unrecognised("to_dict: loop over fields(dc)")
    lb = [_norm(s) for s in clean(loops[0].body)]
    want_tail = [
        "encoding_fn = encode",
        "if is_dataclass(value) and recurse:\n    encoded = to_dict(value, dict_factory=dict_factory, recurse=recurse, save_dc_types=save_dc_types)\n"
        "else:\n    try:\n        encoded = encoding_fn(value)\n    except Exception as e:\n        encoded = value",
        "d[name] = encoded",
    ]
    if lb[:2] != ["name = f.name", "value = getattr(dc, name)"] or lb[-3:] != want_tail:
        raise Unrecognised(f"to_dict: per-field body changed: {lb}")
    if unparse(clean(td.body)[-1]) != "return d":
        raise Unrecognised("to_dict: does not end with `return d`")
    dflt = kw_defaults(td)
    if unparse(dflt.get("recurse", ast.Constant(None))) != "True" or unparse(dflt.get("save_dc_types", ast.Constant(None))) != "False":
        raise Unrecognised("to_dict: defaults of recurse / save_dc_types")


# ---- field_wrapper.py / parsing.py / dataclass_wrapper.py --------------------------------------------

def _field_wrapper_facts(fw):
    dflt = find_def(fw, "default", cls="FieldWrapper")
    # the chain of sources is the if statement that starts with the test on `self._default` (old shape: the first statement;
    # new shape: preceded by `single_value = True`, a flag read only by the packaging for reused (ALWAYS_MERGE) fields)
    body = clean(dflt.body)
    chain = [s for s in body if isinstance(s, ast.If) and unparse(s.test) == "self._default is not None"]
    if len(chain) != 1:
        raise Unrecognised("FieldWrapper.default: chain starting with `self._default is not None` not found exactly once")
    before = [unparse(s) for s in body[:body.index(chain[0])]]
    if before not in ([], ["single_value = True"]):
        raise Unrecognised(f"FieldWrapper.default: statements before the chain of sources: {before}")
    arms, _ = if_chain(chain[0])
    first_test = unparse(arms[0][0])
    first_body = [unparse(s) for s in arms[0][1]]
    if first_body not in (["default = self._default"], ["default = self._default", "single_value = False"]):
        raise Unrecognised(f"FieldWrapper.default: first arm is `{first_test}`: {first_body}")
    # after the chain: only the packaging for reused fields (guarded by self.is_reused) and the return
    after = body[body.index(chain[0]) + 1:]
    if len(after) != 2 or not isinstance(after[0], ast.If) or unparse(after[0].test) != "self.is_reused and default is not None" \
            or after[0].orelse or unparse(after[1]) != "return default":
        raise Unrecognised(f"FieldWrapper.default: statements after the chain of sources: {[unparse(x)[:60] for x in after]}")
    tests = [unparse(t) for t, _ in arms]
    want = ["self._default is not None", "self.is_subgroup", None, "self.field.default is not dataclasses.MISSING",
            "self.field.default_factory is not dataclasses.MISSING", "self.action == 'store_true'", "self.action == 'store_false'"]
    if len(tests) != len(want) or any(w is not None and w != t for t, w in zip(tests, want)) \
            or not tests[2].startswith("any((parent_default not in (None, argparse.SUPPRESS)"):
        raise Unrecognised(f"FieldWrapper.default: chain of sources changed: {tests}")
    sd = _body_texts(find_def(fw, "set_default", cls="FieldWrapper"))
    if sd != ["self._default = value"]:
        raise Unrecognised(f"FieldWrapper.set_default body: {sd}")

    # get_arg_options: the `self.is_enum` arm
    gao = find_def(fw, "get_arg_options", cls="FieldWrapper")
    arm = None
    for n in ast.walk(gao):
        if isinstance(n, ast.If) and unparse(n.test) == "self.is_choice":
            arms, _ = if_chain(n)
            for t, b in arms:
                if unparse(t) == "self.is_enum":
                    arm = b
    if arm is None:
        raise Unrecognised("get_arg_options: `self.is_enum` arm not found")
    texts = [unparse(s) for s in arm]
    base = ["assert issubclass(self.type, Enum)", "_arg_options['choices'] = list((e.name for e in self.type))", "_arg_options['type'] = str"]
    conv = ("if self.default:\n\n    def enum_to_str(e):\n        return e.name if isinstance(e, Enum) else e\n"
            "    if self.is_reused:\n        _arg_options['default'] = [enum_to_str(default) for default in self.default]\n"
            "    else:\n        _arg_options['default'] = enum_to_str(self.default)")
    if texts == base + [conv]:
        enum_as_name = True
    elif texts == base:
        enum_as_name = False
    else:
        raise Unrecognised(f"get_arg_options: enum arm changed: {texts}")
    _find_stmt(gao, "_arg_options['default'] = self.default", "get_arg_options")

    # postprocess, `self.is_tuple` arm: does it leave None alone?  (old: tuple(None) -> TypeError)
    pp = find_def(fw, "postprocess", cls="FieldWrapper")
    tup_arm = None
    for n in ast.walk(pp):
        if isinstance(n, ast.If) and unparse(n.test) == "self.is_enum":
            arms, _ = if_chain(n)
            for t, b in arms:
                if unparse(t) == "self.is_tuple":
                    tup_arm = b
    if tup_arm is None:
        raise Unrecognised("postprocess: `self.is_tuple` arm not found")
    tup_texts = [_norm(s) for s in tup_arm]
    if tup_texts == ["if not isinstance(raw_parsed_value, tuple):\n    return tuple(raw_parsed_value)"]:
        tuple_none_guard = False
    elif tup_texts == ["if raw_parsed_value is not None and (not isinstance(raw_parsed_value, tuple)):\n    return tuple(raw_parsed_value)"]:
        tuple_none_guard = True
    else:
        raise Unrecognised(f"postprocess: tuple arm changed: {tup_texts}")
    if _norm(clean(pp.body)[-1]) != "return raw_parsed_value":
        raise Unrecognised("postprocess: does not end with `return raw_parsed_value`")

    call = find_def(fw, "__call__", cls="FieldWrapper")
    _in_order(call, ["values = [values]", "value = self.postprocess(value)", "constructor_arguments[parent_dest][attribute] = value"],
              "FieldWrapper.__call__")
    return enum_as_name, first_test, tuple_none_guard


def _parsing_facts(ps, dw):
    fill = find_def(ps, "_fill_constructor_arguments_with_fields", cls="ArgumentParser")
    steps = ["values = parsed_arg_values.pop(field.dest, field.default)",
             "field(parser=self, namespace=parsed_args, values=values, constructor_arguments=constructor_arguments)"]
    _in_order(fill, steps, "_fill_constructor_arguments_with_fields")
    sd = find_def(ps, "set_defaults", cls="ArgumentParser")
    _in_order(sd, ["defaults = read_file(config_path)", "defaults = {self._wrappers[0].dest: defaults}",
                   "kwargs = dict_union(defaults, kwargs)", "default_for_dataclass = kwargs[wrapper.dest]",
                   "wrapper.set_default(default_for_dataclass)"], "ArgumentParser.set_defaults")
    pka = find_def(ps, "parse_known_args", cls="ArgumentParser")
    calls = [s for s in _walk_stmts(pka) if unparse(s) == "self.set_defaults(config_file)"]
    pre = _find_stmt(pka, "self._preprocessing(args=args, namespace=namespace)", "parse_known_args")
    if len(calls) != 2 or any(c.lineno >= pre.lineno for c in calls):
        raise Unrecognised("parse_known_args: config files are not applied (twice: constructor, command line) before _preprocessing")
    post = _find_stmt(pka, "parsed_args = self._postprocessing(parsed_args)", "parse_known_args")
    if post.lineno <= pre.lineno:
        raise Unrecognised("parse_known_args: _postprocessing before _preprocessing")
    # DataclassWrapper.set_default
    dsd = find_def(dw, "set_default", cls="DataclassWrapper")
    _in_order(dsd, ["field_default_values = value", "self._default = value",
                    "field_default_value = field_default_values[field_wrapper.name]",
                    "field_wrapper.set_default(field_default_value)",
                    "field_default_value = field_default_values[nested_dataclass_wrapper.name]",
                    "nested_dataclass_wrapper.set_default(field_default_value)"], "DataclassWrapper.set_default")
    raises = [unparse(n.exc.func) for n in ast.walk(dsd) if isinstance(n, ast.Raise) and isinstance(n.exc, ast.Call)]
    if raises != ["RuntimeError"]:
        raise Unrecognised(f"DataclassWrapper.set_default raises {raises}")
    return steps


def emit(repo: str) -> str:
    enc = parse(repo, "simple_parsing/helpers/serialization/encoding.py")
    ser = parse(repo, "simple_parsing/helpers/serialization/serializable.py")
    fw = parse(repo, "simple_parsing/wrappers/field_wrapper.py")
    ps = parse(repo, "simple_parsing/parsing.py")
    dw = parse(repo, "simple_parsing/wrappers/dataclass_wrapper.py")

    table = _encode_table(enc)
    exts = _extensions(ser)
    _check_save_and_read(ser)
    enum_as_name, sentinel, tuple_none_guard = _field_wrapper_facts(fw)
    steps = _parsing_facts(ps, dw)

    tbl = "[" + "; ".join(f"({cstr(c)}, {r})" for c, r in table) + "]"
    ext = "[" + "; ".join(f"({cstr(s)}, {c})" for s, c in exts) + "]"
    return (
        "From SPV Require Import Base.Str Model.Leaf Model.ConfigLoop Gen.FactsBool Gen.FactsLeaf.\nOpen Scope string_scope.\n"
        f"Definition encode_table_gen : list (string * erule) := {tbl}.\n"
        f"Definition extensions_gen : list (string * codec) := {ext}.\n"
        f"Definition enum_default_as_name_gen : bool := {'true' if enum_as_name else 'false'}.\n"
        f"Definition tuple_none_guard_gen : bool := {'true' if tuple_none_guard else 'false'}.\n"
        f"Definition default_sentinel_test_gen : string := {cstr(sentinel)}.\n"
        f"Definition fill_steps_gen : list string := {cstrs(steps + ['value = self.postprocess(value)', 'constructor_arguments[parent_dest][attribute] = value'])}.\n"
        "(* the model instantiated with the regenerated facts *)\n"
        "Definition encode_cfg_gen := encode_cfg encode_table_gen.\n"
        "Definition to_dict_gen := to_dict encode_table_gen.\n"
        "Definition file_roundtrip_gen := file_roundtrip extensions_gen.\n"
        "Definition as_argparse_default_gen := as_argparse_default enum_default_as_name_gen.\n"
        "Definition argparse_default_gen := argparse_default str2bool_gen enum_miss_cls_gen.\n"
        "Definition finish_default_gen := finish_default str2bool_gen enum_miss_cls_gen enum_default_as_name_gen tuple_none_guard_gen.\n"
        "Definition value_via_config_gen := value_via_config str2bool_gen enum_miss_cls_gen enum_default_as_name_gen tuple_none_guard_gen.\n"
        "Definition load_cfg_gen := load_cfg str2bool_gen enum_miss_cls_gen enum_default_as_name_gen tuple_none_guard_gen.\n"
        "Definition config_loop_gen := config_loop str2bool_gen enum_miss_cls_gen encode_table_gen extensions_gen enum_default_as_name_gen tuple_none_guard_gen.\n"
        "Definition config_loop_rooted_gen := config_loop_rooted str2bool_gen enum_miss_cls_gen encode_table_gen extensions_gen enum_default_as_name_gen tuple_none_guard_gen.\n"
    )
