"""Facts for C15 (save() -> config_path loop).

Read from the source, fail closed:
  * encoding.py: the singledispatch registrations of `encode` (class -> body rule) and its fallback (dataclass -> dict, else deepcopy)
  * serializable.py: the `extensions` suffix table with what each extension class loads/dumps with; get_extension (RuntimeError for an
    unknown suffix); save() (to_dict unless already a dict, then format.dump) and read_file() (format.load); Serializable.save -> save;
    to_dict (nested dataclasses recurse, everything else goes through `encode`)
  * field_wrapper.py: FieldWrapper.default tests `self._default is not None` first (None = unset); set_default stores the value;
    get_arg_options' enum arm turns an Enum default into its name; __call__ applies postprocess and stores the result
  * parsing.py: _fill_constructor_arguments_with_fields takes `parsed_arg_values.pop(field.dest, field.default)` and calls the field;
    set_defaults reads the file, re-roots it for WITHOUT_ROOT with one wrapper, and hands each destination's section to
    DataclassWrapper.set_default; parse_known_args applies the config files before _preprocessing
  * dataclass_wrapper.py: set_default distributes a dict by field name to the field wrappers and to the nested wrappers; unknown names
    raise RuntimeError

Output: coq/Gen/FactsConfigLoop.v (imports Model.ConfigLoop for the table types and instantiates the model)."""
from __future__ import annotations

import ast

from .pyast import (Unrecognised, clean, const, cstr, cstrs, find_class, find_def, if_chain, is_logger_call, kw_defaults, module_assign,
                    parse, unparse)


class _DropLogging(ast.NodeTransformer):
    """logger.*(...) statements are behaviour-neutral: removed at every depth before a body is compared"""

    def visit_Expr(self, node):
        return None if is_logger_call(node) else node

    def generic_visit(self, node):
        super().generic_visit(node)
        for attr in ("body", "orelse", "finalbody"):
            if hasattr(node, attr) and isinstance(getattr(node, attr), list) and not getattr(node, attr) and attr == "body":
                node.body = [ast.Pass()]
        return node


def _norm(stmt):
    import copy
    return unparse(_DropLogging().visit(copy.deepcopy(stmt)))


def _body_texts(fn):
    return [_norm(s) for s in clean(fn.body)]


def _walk_stmts(node):
    for n in ast.walk(node):
        if isinstance(n, ast.stmt):
            yield n


def _find_stmt(fn, text, what):
    """the (single) statement of fn (at any depth) whose source is `text`"""
    hits = [s for s in _walk_stmts(fn) if s is not fn and unparse(s) == text]
    if len(hits) != 1:
        raise Unrecognised(f"{what}: statement `{text}` found {len(hits)} times")
    return hits[0]


def _in_order(fn, texts, what):
    prev = -1
    for t in texts:
        s = _find_stmt(fn, t, what)
        if s.lineno <= prev:
            raise Unrecognised(f"{what}: `{t}` is not after the previous step")
        prev = s.lineno


# ---- encoding.py -------------------------------------------------------------------------------------

ENCODE_DICT_BODY = [
    "constructor = type(obj)",
    "result = constructor()",
    "for k, v in obj.items():\n    k_ = encode(k)\n    v_ = encode(v)\n    if isinstance(k_, Hashable):\n        result[k_] = v_\n    else:\n"
    "        if isinstance(result, dict):\n            result = list(result.items())\n        result.append((k_, v_))",
    "return result",
    "return type(obj)(((encode(k), encode(v)) for k, v in obj.items()))",
]
RULES = {
    ("return list(map(encode, obj))",): "ESeq",
    ("return obj.__fspath__()",): "EFspath",
    ("return encode(vars(obj))",): "EVars",
    ("return obj.name",): "EName",
    tuple(ENCODE_DICT_BODY): "EMap",
}
KNOWN_CLASSES = {"list", "tuple", "set", "Mapping", "PathLike", "Namespace", "Enum"}


def _encode_table(enc):
    table = []
    n_register_calls = 0
    for n in ast.walk(enc):
        if isinstance(n, ast.Call) and unparse(n.func) == "encode.register":
            n_register_calls += 1
    seen_in_decorators = 0
    base = None
    for fn in enc.body:
        if not isinstance(fn, ast.FunctionDef):
            continue
        decos = [unparse(d) for d in fn.decorator_list]
        if decos == ["singledispatch"]:
            if fn.name != "encode" or base is not None:
                raise Unrecognised("encoding.py: a second singledispatch function")
            base = fn
            continue
        classes = []
        for d in fn.decorator_list:
            if not (isinstance(d, ast.Call) and unparse(d.func) == "encode.register" and len(d.args) == 1 and not d.keywords
                    and isinstance(d.args[0], ast.Name)):
                raise Unrecognised(f"encoding.py: decorator {unparse(d)} on {fn.name}")
            classes.append(d.args[0].id)
            seen_in_decorators += 1
        if not classes:
            continue
        if len(fn.args.args) != 1 or fn.args.args[0].arg != "obj":
            raise Unrecognised(f"encoding.py: signature of {fn.name}")
        rule = RULES.get(tuple(_body_texts(fn)))
        if rule is None:
            raise Unrecognised(f"encoding.py: body of {fn.name} is not a known rule: {_body_texts(fn)}")
        for c in reversed(classes):          # decorators apply bottom-up; the order is immaterial (distinct classes)
            if c not in KNOWN_CLASSES:
                raise Unrecognised(f"encoding.py: encode registered for a class the model does not know: {c}")
            if c in [x for x, _ in table]:
                raise Unrecognised(f"encoding.py: encode registered twice for {c}")
            table.append((c, rule))
    if seen_in_decorators != n_register_calls:
        raise Unrecognised("encoding.py: encode.register used other than as a decorator")
    if base is None:
        raise Unrecognised("encoding.py: singledispatch function encode not found")
    # fallback: dataclass -> dict of encoded fields, anything else -> copy.deepcopy(obj)
    body = clean(base.body)
    if len(body) != 1 or not isinstance(body[0], ast.Try):
        raise Unrecognised("encode: fallback body is not a single try")
    inner = clean(body[0].body)
    if len(inner) != 1 or not isinstance(inner[0], ast.If) or unparse(inner[0].test) != "is_dataclass(obj)":
        raise Unrecognised("encode: fallback does not start with `if is_dataclass(obj)`")
    if [unparse(s) for s in clean(inner[0].orelse)] != ["return copy.deepcopy(obj)"]:
        raise Unrecognised("encode: fallback for non-dataclasses is not `return copy.deepcopy(obj)`")
    return table


# ---- serializable.py ---------------------------------------------------------------------------------

def _codec_of_class(ser, cls_name):
    c = find_class(ser, cls_name)
    texts = [unparse(s) for s in clean(c.body)]
    if cls_name == "JSONExtension" and texts == ["load = staticmethod(json.load)", "dump = staticmethod(json.dump)"]:
        return "CJson"
    if cls_name == "PickleExtension" and texts == [
            "binary: ClassVar[bool] = True",
            "load: ClassVar[Callable[[IO], Any]] = staticmethod(pickle.load)",
            "dump: ClassVar[Callable[[Any, IO[bytes]], None]] = staticmethod(pickle.dump)"]:
        return "CPickle"
    if cls_name == "YamlExtension":
        load = [unparse(s) for s in clean(find_def(ser, "load", cls=cls_name).body)]
        dump = [unparse(s) for s in clean(find_def(ser, "dump", cls=cls_name).body)]
        if load == ["import yaml", "return yaml.safe_load(io)"] and dump == ["import yaml", "return yaml.dump(obj, io, **kwargs)"] \
                and len(clean(c.body)) == 2:
            return "CYaml"
        raise Unrecognised(f"YamlExtension: load={load} dump={dump}")
    if cls_name in ("JSONExtension", "PickleExtension"):
        raise Unrecognised(f"{cls_name}: body changed: {texts}")
    return f"(COther {cstr(cls_name)})"


def _extensions(ser):
    d = module_assign(ser, "extensions")
    if not isinstance(d, ast.Dict):
        raise Unrecognised("extensions is not a dict literal")
    rows = []
    for k, v in zip(d.keys, d.values):
        suffix = const(k, str)
        if not (isinstance(v, ast.Call) and isinstance(v.func, ast.Name) and not v.args and not v.keywords):
            raise Unrecognised(f"extensions[{suffix!r}] = {unparse(v)}")
        rows.append((suffix, _codec_of_class(ser, v.func.id)))
    if len({s for s, _ in rows}) != len(rows):
        raise Unrecognised("extensions: duplicate suffix")
    # later writes to the table would go unnoticed
    for n in ast.walk(ser):
        if isinstance(n, (ast.Assign, ast.AugAssign, ast.Delete)):
            targets = n.targets if isinstance(n, (ast.Assign, ast.Delete)) else [n.target]
            for t in targets:
                if isinstance(t, ast.Subscript) and unparse(t.value) == "extensions":
                    raise Unrecognised("extensions is modified after its definition")
        if isinstance(n, ast.Call) and unparse(n.func) in ("extensions.update", "extensions.pop", "extensions.setdefault", "extensions.clear"):
            raise Unrecognised("extensions is modified after its definition")
    return rows


def _check_save_and_read(ser):
    ge = _body_texts(find_def(ser, "get_extension"))
    if len(ge) != 2 or ge[0] != "path = Path(path)" or not ge[1].startswith(
            "if path.suffix in extensions:\n    return extensions[path.suffix]\nelse:\n    raise RuntimeError("):
        raise Unrecognised(f"get_extension body: {ge}")
    sv = find_def(ser, "save")
    want = ["if not isinstance(obj, dict):\n    obj = to_dict(obj, save_dc_types=save_dc_types)",
            "if format is None:\n    format = get_extension(path)",
            "with open(path, mode='wb' if format.binary else 'w') as f:\n    return format.dump(obj, f, **kwargs)"]
    if _body_texts(sv) != want:
        raise Unrecognised(f"save body: {_body_texts(sv)}")
    d = kw_defaults(sv)
    if unparse(d.get("save_dc_types", ast.Constant(None))) != "False" or unparse(d.get("format", ast.Constant(0))) != "None":
        raise Unrecognised("save: defaults of save_dc_types / format")
    rf = _body_texts(find_def(ser, "read_file"))
    if rf != ["format = get_extension(path)", "with open(path, mode='rb' if format.binary else 'r') as f:\n    return format.load(f)"]:
        raise Unrecognised(f"read_file body: {rf}")
    ms = _body_texts(find_def(ser, "save", cls="SerializableMixin"))
    if ms != ["save(self, path=path, format=format)"]:
        raise Unrecognised(f"SerializableMixin.save body: {ms}")
    mt = _body_texts(find_def(ser, "to_dict", cls="SerializableMixin"))
    if mt != ["return to_dict(self, dict_factory=dict_factory, recurse=recurse, save_dc_types=save_dc_types)"]:
        raise Unrecognised(f"SerializableMixin.to_dict body: {mt}")
    # to_dict: per field, nested dataclasses recurse, everything else goes through encode; the key is the field name
    td = find_def(ser, "to_dict")
    loops = [s for s in clean(td.body) if isinstance(s, ast.For)]
    if len(loops) != 1 or unparse(loops[0].target) != "f" or unparse(loops[0].iter) != "fields(dc)":
        raise Unrecognised("to_dict: loop over fields(dc)")
    lb = [_norm(s) for s in clean(loops[0].body)]
    want_tail = [
        "encoding_fn = encode",
        "if is_dataclass(value) and recurse:\n    encoded = to_dict(value, dict_factory=dict_factory, recurse=recurse, save_dc_types=save_dc_types)\n"
        "else:\n    try:\n        encoded = encoding_fn(value)\n    except Exception as e:\n        encoded = value",
        "d[name] = encoded",
    ]
    want_head = ["name = f.name", "value = getattr(dc, name)", "include_in_dict = f.metadata.get('to_dict', True)",
                 "if not include_in_dict:\n    continue", "custom_encoding_fn = f.metadata.get('encoding_fn')",
                 "if custom_encoding_fn:\n    d[name] = custom_encoding_fn(value)\n    continue"]
    if lb != want_head + want_tail:
        raise Unrecognised(f"to_dict: per-field body changed: {lb}")
    if unparse(clean(td.body)[-1]) != "return d":
        raise Unrecognised("to_dict: does not end with `return d`")
    dflt = kw_defaults(td)
    if unparse(dflt.get("recurse", ast.Constant(None))) != "True" or unparse(dflt.get("save_dc_types", ast.Constant(None))) != "False":
        raise Unrecognised("to_dict: defaults of recurse / save_dc_types")



# ---- FieldWrapper.postprocess: the whole if/elif chain, test and body of every arm ---------------------

PP_TESTS = {"self.is_enum": "PtEnum", "self.is_choice": "PtChoice", "self.is_tuple": "PtTuple", "self.is_bool": "PtBool",
            "self.is_list": "PtList", "self.is_subparser": "PtSubparser", "utils.is_optional(self.type)": "PtOptional",
            "self.type not in utils.builtin_types": "PtNotBuiltin"}
PP_BODIES = {
    ("if isinstance(raw_parsed_value, str):\n    raw_parsed_value = self.type[raw_parsed_value]", "return raw_parsed_value"): "PrEnumByName",
    ("choice_dict = self.choice_dict",
     "if choice_dict:\n    key_type = type(next(iter(choice_dict.keys())))\n    if self.is_list and isinstance(raw_parsed_value[0], key_type):\n"
     "        return [choice_dict[value] for value in raw_parsed_value]\n    elif isinstance(raw_parsed_value, key_type):\n"
     "        return choice_dict[raw_parsed_value]", "return raw_parsed_value"): "PrChoice",
    ("if raw_parsed_value is not None and (not isinstance(raw_parsed_value, tuple)):\n    return tuple(raw_parsed_value)",): "(PrTuple true)",
    ("if not isinstance(raw_parsed_value, tuple):\n    return tuple(raw_parsed_value)",): "(PrTuple false)",
    ("return raw_parsed_value",): "PrIdentity",
    ("if isinstance(raw_parsed_value, tuple):\n    return list(raw_parsed_value)\nelse:\n    return raw_parsed_value",): "PrListOfTuple",
    ("item_type = utils.get_args(self.type)[0]",
     "if utils.is_tuple(item_type) and isinstance(raw_parsed_value, list):\n    return tuple(raw_parsed_value)"): "PrOptTuple",
    ("try:\n    return self.type(raw_parsed_value)\nexcept Exception as e:\n    return raw_parsed_value",): "PrCallType",
}


def _postprocess_table(fw):
    pp = find_def(fw, "postprocess", cls="FieldWrapper")
    body = clean(pp.body)
    if len(body) != 2 or not isinstance(body[0], ast.If) or _norm(body[1]) != "return raw_parsed_value":
        raise Unrecognised(f"postprocess: expected one if/elif chain followed by `return raw_parsed_value`: {[_norm(x)[:50] for x in body]}")
    if [a.arg for a in pp.args.args] != ["self", "raw_parsed_value"]:
        raise Unrecognised("postprocess: signature")
    arms, els = if_chain(body[0])
    if els:
        raise Unrecognised("postprocess: the chain has an else arm")
    rows = []
    for t, b in arms:
        test = PP_TESTS.get(unparse(t))
        if test is None:
            raise Unrecognised(f"postprocess: test {unparse(t)}")
        rule = PP_BODIES.get(tuple(_norm(x) for x in b))
        if rule is None:
            raise Unrecognised(f"postprocess: body of the `{unparse(t)}` arm changed: {[_norm(x) for x in b]}")
        rows.append(f"({test}, {rule})")
    return "[" + "; ".join(rows) + "]"


# ---- FieldWrapper.default: the chain of sources, test and body of every arm ----------------------------

D_PARENT_BODY = (
    "def _get_value(dataclass_default: utils.Dataclass | dict, name: str) -> Any:\n    if isinstance(dataclass_default, dict):\n"
    "        return dataclass_default.get(name)\n    return getattr(dataclass_default, name)",
    "defaults = [_get_value(parent_default, self.field.name) for parent_default in self.parent.defaults if parent_default not in (None, argparse.SUPPRESS)]",
)
D_ARMS = [
    ("DManual", "self._default is not None", [("default = self._default",), ("default = self._default", "single_value = False")]),
    ("DSubgroup", "self.is_subgroup", [("default = self.subgroup_default",)]),
    ("DParent", "any((parent_default not in (None, argparse.SUPPRESS) for parent_default in self.parent.defaults))",
     [D_PARENT_BODY + ("if len(self.parent.defaults) == 1:\n    default = defaults[0]\nelse:\n    default = defaults",),
      D_PARENT_BODY + ("if len(self.parent.defaults) == 1:\n    default = defaults[0]\nelse:\n    default = defaults\n    single_value = False",)]),
    ("DFieldDefault", "self.field.default is not dataclasses.MISSING", [("default = self.field.default",)]),
    ("DFactory", "self.field.default_factory is not dataclasses.MISSING",
     [("if self._default is None:\n    self._default = self.field.default_factory()", "default = self._default"),
      ("if self._default_factory_result is dataclasses.MISSING:\n    self._default_factory_result = self.field.default_factory()",
       "default = self._default_factory_result")]),
    ("DStoreTrue", "self.action == 'store_true'", [("default = False",)]),
    ("DStoreFalse", "self.action == 'store_false'", [("default = True",)]),
]


def _default_chain(arms_and_else):
    arms, els = arms_and_else
    if [_norm(x) for x in els] != ["default = None"]:
        raise Unrecognised(f"FieldWrapper.default: else arm {[_norm(x) for x in els]}")
    by_test = {t: (name, bodies) for name, t, bodies in D_ARMS}
    out = []
    for t, b in arms:
        k = by_test.get(unparse(t))
        if k is None:
            raise Unrecognised(f"FieldWrapper.default: test `{unparse(t)[:80]}`")
        if tuple(_norm(x) for x in b) not in k[1]:
            raise Unrecognised(f"FieldWrapper.default: body of the `{unparse(t)[:60]}` arm changed: {[_norm(x) for x in b]}")
        out.append(k[0])
    if len(set(out)) != len(out):
        raise Unrecognised("FieldWrapper.default: a source occurs twice")
    return "[" + "; ".join(out) + "]"


# ---- DataclassWrapper.set_default, _create_dataclass_instance, config sources, nested modes -----------------

DSD_TAIL = [
    "if field_default_values is None:\n    return",
    "unknown_names = set(field_default_values)",
    "for field_wrapper in self.fields:\n    if field_wrapper.name not in field_default_values:\n        continue\n"
    "    field_default_value = field_default_values[field_wrapper.name]\n    field_wrapper.set_default(field_default_value)\n"
    "    unknown_names.remove(field_wrapper.name)",
    "for nested_dataclass_wrapper in self._children:\n    if nested_dataclass_wrapper.name not in field_default_values:\n        continue\n"
    "    field_default_value = field_default_values[nested_dataclass_wrapper.name]\n"
    "    nested_dataclass_wrapper.set_default(field_default_value)\n    unknown_names.remove(nested_dataclass_wrapper.name)",
    "unknown_names.discard('_type_')",
    "if unknown_names:\n    raise RuntimeError(f'{sorted(unknown_names)} are not fields of {self.dataclass} at path {self.dest!r}!')",
]
DSD_HEAD_RECORDS = [
    "if value is not None and (not isinstance(value, dict)):\n    field_default_values = dataclasses.asdict(value)\nelse:\n    field_default_values = value",
    "self._default = value",
]
# a shape that keeps `_default` for dataclass instances only (a dict, i.e. a config file section, is not recorded)
DSD_HEAD_INSTANCES_ONLY = [
    "if value is None:\n    self._default = None\n    return",
    "if isinstance(value, dict):\n    field_default_values = value\nelse:\n    self._default = value\n    field_default_values = dataclasses.asdict(value)",
]


def _wrapper_set_default(dw):
    texts = _body_texts(find_def(dw, "set_default", cls="DataclassWrapper"))
    if texts == DSD_HEAD_RECORDS + DSD_TAIL:
        return True
    if texts == DSD_HEAD_INSTANCES_ONLY + DSD_TAIL[1:]:
        return False
    raise Unrecognised(f"DataclassWrapper.set_default body changed: {texts}")


G_TESTS = {"wrapper.optional": "GOptional", "wrapper.default is None": "GDefaultNone",
           "all((default in (None, argparse.SUPPRESS) for default in wrapper.defaults))": "GDefaultsAllNone"}
G_LOOP = ("for field_wrapper in wrapper.fields:\n    arg_value = constructor_args[field_wrapper.name]\n    default_value = field_wrapper.default\n"
          "    if arg_value != default_value:\n        break\nelse:\n    return None")


def _optional_guard(ps):
    fn = find_def(ps, "_create_dataclass_instance")
    body = clean(fn.body)
    if len(body) != 2 or not isinstance(body[0], ast.If) or body[0].orelse or _norm(body[1]) != "return constructor(**constructor_args)":
        raise Unrecognised(f"_create_dataclass_instance: body changed: {[_norm(x)[:60] for x in body]}")
    if [_norm(x) for x in clean(body[0].body)] != [G_LOOP]:
        raise Unrecognised(f"_create_dataclass_instance: the comparison loop changed: {[_norm(x) for x in clean(body[0].body)]}")
    test = body[0].test
    conj = test.values if isinstance(test, ast.BoolOp) and isinstance(test.op, ast.And) else [test]
    out = []
    for c in conj:
        g = G_TESTS.get(unparse(c))
        if g is None:
            raise Unrecognised(f"_create_dataclass_instance: guard conjunct `{unparse(c)}`")
        out.append(g)
    if "GOptional" not in out:
        raise Unrecognised("_create_dataclass_instance: the guard no longer tests wrapper.optional")
    return "[" + "; ".join(out) + "]"


PKA_CTOR = ("if self.config_path:\n    if isinstance(self.config_path, Path):\n        config_paths = [self.config_path]\n    else:\n"
            "        config_paths = self.config_path\n    for config_file in config_paths:\n        self.set_defaults(config_file)")
PKA_CLI_PREFIX = (
    "if self.add_config_path_arg:\n    config_path_name = self.add_config_path_arg if isinstance(self.add_config_path_arg, str) else 'config_path'\n"
    "    temp_parser = ArgumentParser(add_config_path_arg=False, add_help=False, add_option_string_dash_variants=FieldWrapper.add_dash_variants, "
    "argument_generation_mode=FieldWrapper.argument_generation_mode, nested_mode=FieldWrapper.nested_mode)\n"
    "    temp_parser.add_argument(f'--{config_path_name}', type=Path, nargs='*', default=self.config_path, "
    "help='Path to a config file containing default values to use.')\n"
    "    args_with_config_path, args = temp_parser.parse_known_args(args)\n"
    "    config_path = getattr(args_with_config_path, config_path_name.replace('-', '_'))\n"
    "    if config_path is not None:\n        config_paths = config_path if isinstance(config_path, list) else [config_path]\n"
    "        for config_file in config_paths:\n            self.set_defaults(config_file)\n")
PKA_CLI_HELP = [   # the help-only argument added afterwards (either form)
    "    self.add_argument(f'--{config_path_name}', type=Path, default=config_path, help='Path to a config file containing default values to use.')",
    "    if f'--{config_path_name}' not in self._option_string_actions:\n"
    "        self.add_argument(f'--{config_path_name}', type=Path, default=config_path, help='Path to a config file containing default values to use.')",
]
NMODES = {"NestedMode.DEFAULT": "NmDefault", "NestedMode.WITHOUT_ROOT": "NmWithoutRoot"}


def _nmode(node):
    t = unparse(node)
    return NMODES.get(t) or f"(NmOther {cstr(t)})"


def _config_sources(ps):
    pka = find_def(ps, "parse_known_args", cls="ArgumentParser")
    texts = _body_texts(pka)
    try:
        pre = texts.index("self._preprocessing(args=args, namespace=namespace)")
    except ValueError:
        raise Unrecognised("parse_known_args: call of _preprocessing")
    out = []
    for t in texts[:pre]:
        if t == PKA_CTOR:
            out.append("CCtor")
        elif any(t == PKA_CLI_PREFIX + h for h in PKA_CLI_HELP) or (
                # the tail of the block only maintains the help-only `--config_path` argument of this parser (its shape has changed with
                # several fixes); it must not touch defaults or files
                t.startswith(PKA_CLI_PREFIX + "    if f'--{config_path_name}' not in self._option_string_actions:\n        self.add_argument(")
                and not any(w in t[len(PKA_CLI_PREFIX):] for w in ("set_defaults", "read_file", "config_file", "_defaults", "constructor_arguments"))):
            out.append("CCli")
        elif "set_defaults" in t or "config_path" in t:
            raise Unrecognised(f"parse_known_args: a statement handling config files changed: {t[:200]}")
    if any(("set_defaults" in t or "read_file" in t) for t in texts[pre:]):
        raise Unrecognised("parse_known_args: config files handled after _preprocessing")
    # ArgumentParser.__init__: config_path is stored (a str as a Path), add_config_path_arg defaults to bool(config_path)
    init = find_def(ps, "__init__", cls="ArgumentParser")
    _in_order(init, ["self.nested_mode = nested_mode",
                     "self.config_path = Path(config_path) if isinstance(config_path, str) else config_path",
                     "if add_config_path_arg is None:\n    add_config_path_arg = bool(config_path)",
                     "self.add_config_path_arg = add_config_path_arg"], "ArgumentParser.__init__")
    parser_nm = _nmode(kw_defaults(init)["nested_mode"])
    pf = find_def(ps, "parse")
    parse_nm = _nmode(kw_defaults(pf)["nested_mode"])
    _find_stmt(pf, "parser = ArgumentParser(nested_mode=nested_mode, add_help=True, config_path=config_path, conflict_resolution=conflict_resolution, "
                   "add_option_string_dash_variants=add_option_string_dash_variants, argument_generation_mode=argument_generation_mode, "
                   "formatter_class=formatter_class, add_config_path_arg=add_config_path_arg, **kwargs)", "parse()")
    _in_order(pf, ["parser.add_arguments(config_class, prefix=prefix, dest=dest, default=default)", "parsed_args = parser.parse_args(args)",
                   "config: Dataclass = getattr(parsed_args, dest)", "return config"], "parse()")
    # set_defaults: the file is re-rooted under the single destination for WITHOUT_ROOT
    sd = _body_texts(find_def(ps, "set_defaults", cls="ArgumentParser"))
    want0 = ("if config_path:\n    defaults = read_file(config_path)\n    if self.nested_mode == NestedMode.WITHOUT_ROOT and len(self._wrappers) == 1:\n"
             "        defaults = {self._wrappers[0].dest: defaults}\n        kwargs = {self._wrappers[0].dest: kwargs}\n"
             "    kwargs = dict_union(defaults, kwargs)")
    if not sd or sd[0] != want0:
        raise Unrecognised(f"ArgumentParser.set_defaults: reading / re-rooting the file changed: {sd[:1]}")
    return "[" + "; ".join(out) + "]", parse_nm, parser_nm, "[NmWithoutRoot]"


# ---- field_wrapper.py / parsing.py / dataclass_wrapper.py --------------------------------------------

def _enum_member_passthrough(fp):
    """parse_enum._parse_enum (the by-name converter of Optional[Enum] / List[Enum] / ... fields): does it return a value that already
    is a member as it is?  (argparse passes a default that is a str instance through the converter; members of a str-mixin Enum are)"""
    pe = find_def(fp, "parse_enum")
    inner = [n for n in pe.body if isinstance(n, ast.FunctionDef) and n.name == "_parse_enum"]
    if len(inner) != 1 or [a.arg for a in inner[0].args.args] != ["v"]:
        raise Unrecognised("parse_enum._parse_enum")
    body = [_norm(x) for x in clean(inner[0].body)]
    lookups = ("return enum_type[v]",)
    def is_lookup(t):
        return t == "return enum_type[v]" or (t.startswith("try:\n    return enum_type[v]\nexcept KeyError:\n    raise ") and t.count("\n") == 3)
    if len(body) == 1 and is_lookup(body[0]):
        return False
    if len(body) == 2 and body[0] == "if isinstance(v, enum_type):\n    return v" and is_lookup(body[1]):
        return True
    raise Unrecognised(f"parse_enum._parse_enum body changed: {body}")


def _arg_type_rules(fw):
    """get_arg_options: for every arm of the annotation chain (and the final else), the `type=` / `action=` it gives the argument, in
    source order (these converters are what a str default read from a file is passed through; Model/Leaf.v's arg_options mirrors them)"""
    gao = find_def(fw, "get_arg_options", cls="FieldWrapper")
    chain = None
    for n in ast.walk(gao):
        if isinstance(n, ast.If) and unparse(n.test) == "self.is_choice":
            chain = n
    if chain is None:
        raise Unrecognised("get_arg_options: chain starting with `self.is_choice` not found")
    arms, els = if_chain(chain)
    rows = []
    for test, body in [(unparse(t), b) for t, b in arms] + [("else", els)]:
        assigns = []
        for st in body:
            for n in ast.walk(st):
                if isinstance(n, ast.Assign) and len(n.targets) == 1 and unparse(n.targets[0]) in ("_arg_options['type']", "_arg_options['action']"):
                    assigns.append((n.lineno, unparse(n)))
        rows.append((test, [t for _, t in sorted(assigns)]))
    return "[" + "; ".join(f"({cstr(t)}, {cstrs(a)})" for t, a in rows) + "]"


def _field_wrapper_facts(fw):
    dflt = find_def(fw, "default", cls="FieldWrapper")
    # the chain of sources is the if statement that starts with the test on `self._default` (old shape: the first statement;
    # new shape: preceded by `single_value = True`, a flag read only by the packaging for reused (ALWAYS_MERGE) fields)
    body = clean(dflt.body)
    chain = [s for s in body if isinstance(s, ast.If)][:1]
    if not chain:
        raise Unrecognised("FieldWrapper.default: no chain of sources")
    before = [unparse(s) for s in body[:body.index(chain[0])]]
    if before not in ([], ["single_value = True"]):
        raise Unrecognised(f"FieldWrapper.default: statements before the chain of sources: {before}")
    default_arms = if_chain(chain[0])
    manual = [unparse(t) for t, _ in default_arms[0] if unparse(t) == "self._default is not None"]
    if len(manual) != 1:
        raise Unrecognised("FieldWrapper.default: no arm tests `self._default is not None` (None = unset)")
    first_test = manual[0]
    # after the chain: only the packaging for reused fields (guarded by self.is_reused) and the return
    after = body[body.index(chain[0]) + 1:]
    if len(after) != 2 or not isinstance(after[0], ast.If) or unparse(after[0].test) != "self.is_reused and default is not None" \
            or after[0].orelse or unparse(after[1]) != "return default":
        raise Unrecognised(f"FieldWrapper.default: statements after the chain of sources: {[unparse(x)[:60] for x in after]}")
    sd = _body_texts(find_def(fw, "set_default", cls="FieldWrapper"))
    if sd != ["self._default = value"]:
        raise Unrecognised(f"FieldWrapper.set_default body: {sd}")

    # get_arg_options: the `self.is_enum` arm
    gao = find_def(fw, "get_arg_options", cls="FieldWrapper")
    arm = None
    for n in ast.walk(gao):
        if isinstance(n, ast.If) and unparse(n.test) == "self.is_choice":
            arms, _ = if_chain(n)
            for t, b in arms:
                if unparse(t) == "self.is_enum":
                    arm = b
    if arm is None:
        raise Unrecognised("get_arg_options: `self.is_enum` arm not found")
    texts = [unparse(s) for s in arm]
    base = ["assert issubclass(self.type, Enum)", "_arg_options['choices'] = list((e.name for e in self.type))", "_arg_options['type'] = str"]
    conv_body = ("\n\n    def enum_to_str(e):\n        return e.name if isinstance(e, Enum) else e\n"
                 "    if self.is_reused:\n        _arg_options['default'] = [enum_to_str(default) for default in self.default]\n"
                 "    else:\n        _arg_options['default'] = enum_to_str(self.default)")
    named_if_not_none = True
    if texts == base + ["if self.default is not None:" + conv_body]:
        enum_as_name = True
    elif texts == base + ["if self.default:" + conv_body]:
        enum_as_name, named_if_not_none = True, False      # truthy members only
    elif texts == base:
        enum_as_name = False
    else:
        raise Unrecognised(f"get_arg_options: enum arm changed: {texts}")
    _find_stmt(gao, "_arg_options['default'] = self.default", "get_arg_options")

    pp_table = _postprocess_table(fw)
    dchain = _default_chain(default_arms)

    call = find_def(fw, "__call__", cls="FieldWrapper")
    _in_order(call, ["values = [values]", "value = self.postprocess(value)", "constructor_arguments[parent_dest][attribute] = value"],
              "FieldWrapper.__call__")
    return enum_as_name, named_if_not_none, first_test, pp_table, dchain


def _parsing_facts(ps, dw):
    fill = find_def(ps, "_fill_constructor_arguments_with_fields", cls="ArgumentParser")
    steps = ["values = parsed_arg_values.pop(field.dest, field.default)",
             "field(parser=self, namespace=parsed_args, values=values, constructor_arguments=constructor_arguments)"]
    _in_order(fill, steps, "_fill_constructor_arguments_with_fields")
    sd = find_def(ps, "set_defaults", cls="ArgumentParser")
    _in_order(sd, ["kwargs = dict_union(defaults, kwargs)", "default_for_dataclass = kwargs[wrapper.dest]",
                   "wrapper.set_default(default_for_dataclass)", "kwargs.pop(wrapper.dest)", "super().set_defaults(**kwargs)"],
              "ArgumentParser.set_defaults")
    pka = find_def(ps, "parse_known_args", cls="ArgumentParser")
    pre = _find_stmt(pka, "self._preprocessing(args=args, namespace=namespace)", "parse_known_args")
    post = _find_stmt(pka, "parsed_args = self._postprocessing(parsed_args)", "parse_known_args")
    if post.lineno <= pre.lineno:
        raise Unrecognised("parse_known_args: _postprocessing before _preprocessing")
    # the loop of _fill_constructor_arguments_with_fields: which fields are skipped
    loops = [n for n in ast.walk(fill) if isinstance(n, ast.For) and unparse(n.target) == "field" and unparse(n.iter) == "wrapper.fields"]
    want_loop = ["if argparse.SUPPRESS in wrapper.defaults and field.dest not in parsed_args:\n    continue",
                 "if field.is_subgroup:\n    continue", "if not field.field.init:\n    continue",
                 steps[0], "deleted_values[field.dest] = values", steps[1]]
    if len(loops) != 1 or [_norm(x) for x in clean(loops[0].body)] != want_loop:
        raise Unrecognised(f"_fill_constructor_arguments_with_fields: per-field body changed: {[_norm(x) for x in clean(loops[0].body)] if loops else None}")
    return steps


def emit(repo: str) -> str:
    enc = parse(repo, "simple_parsing/helpers/serialization/encoding.py")
    ser = parse(repo, "simple_parsing/helpers/serialization/serializable.py")
    fw = parse(repo, "simple_parsing/wrappers/field_wrapper.py")
    ps = parse(repo, "simple_parsing/parsing.py")
    dw = parse(repo, "simple_parsing/wrappers/dataclass_wrapper.py")

    table = _encode_table(enc)
    exts = _extensions(ser)
    _check_save_and_read(ser)
    enum_as_name, named_if_not_none, sentinel, pp_table, dchain = _field_wrapper_facts(fw)
    passthrough = _enum_member_passthrough(parse(repo, "simple_parsing/wrappers/field_parsing.py"))
    arg_types = _arg_type_rules(fw)
    steps = _parsing_facts(ps, dw)
    wdr = _wrapper_set_default(dw)
    oguard = _optional_guard(ps)
    csources, parse_nm, parser_nm, reroot = _config_sources(ps)

    tbl = "[" + "; ".join(f"({cstr(c)}, {r})" for c, r in table) + "]"
    ext = "[" + "; ".join(f"({cstr(s)}, {c})" for s, c in exts) + "]"
    return (
        "From SPV Require Import Base.Str Model.Leaf Model.ConfigLoop Gen.FactsBool Gen.FactsLeaf.\nOpen Scope string_scope.\n"
        f"Definition encode_table_gen : list (string * erule) := {tbl}.\n"
        f"Definition extensions_gen : list (string * codec) := {ext}.\n"
        f"Definition enum_default_as_name_gen : bool := {'true' if enum_as_name else 'false'}.\n"
        f"Definition default_sentinel_test_gen : string := {cstr(sentinel)}.\n"
        f"Definition fill_steps_gen : list string := {cstrs(steps + ['value = self.postprocess(value)', 'constructor_arguments[parent_dest][attribute] = value'])}.\n"
        f"Definition arg_type_rules_gen : list (string * list string) := {arg_types}.\n"
        f"Definition postprocess_table_gen : list (pp_test * pp_rule) := {pp_table}.\n"
        f"Definition default_chain_gen : list dsrc := {dchain}.\n"
        f"Definition wrapper_default_recorded_gen : bool := {'true' if wdr else 'false'}.\n"
        f"Definition optional_guard_gen : list gtest := {oguard}.\n"
        f"Definition config_sources_gen : list csrc := {csources}.\n"
        f"Definition parse_nested_mode_gen : nmode := {parse_nm}.\n"
        f"Definition parser_nested_mode_gen : nmode := {parser_nm}.\n"
        f"Definition reroot_modes_gen : list nmode := {reroot}.\n"
        f"Definition enum_default_named_if_not_none_gen : bool := {'true' if named_if_not_none else 'false'}.\n"
        f"Definition enum_member_passthrough_gen : bool := {'true' if passthrough else 'false'}.\n"
        "Definition wiring_gen : wiring := mkwiring postprocess_table_gen default_chain_gen wrapper_default_recorded_gen optional_guard_gen\n"
        "  config_sources_gen parse_nested_mode_gen parser_nested_mode_gen reroot_modes_gen\n"
        "  enum_default_named_if_not_none_gen enum_member_passthrough_gen.\n"
        "(* the model instantiated with the regenerated facts *)\n"
        "Definition encode_cfg_gen := encode_cfg encode_table_gen.\n"
        "Definition to_dict_gen := to_dict encode_table_gen.\n"
        "Definition file_roundtrip_gen := file_roundtrip extensions_gen.\n"
        "Definition as_argparse_default_gen := as_argparse_default enum_default_as_name_gen wiring_gen.\n"
        "Definition argparse_default_gen := argparse_default str2bool_gen enum_miss_cls_gen wiring_gen.\n"
        "Definition post_value_gen := post_value wiring_gen.\n"
        "Definition field_default_gen := field_default wiring_gen.\n"
        "Definition finish_default_gen := finish_default str2bool_gen enum_miss_cls_gen enum_default_as_name_gen wiring_gen.\n"
        "Definition value_via_config_gen := value_via_config str2bool_gen enum_miss_cls_gen enum_default_as_name_gen wiring_gen.\n"
        "Definition load_cfg_gen := load_cfg str2bool_gen enum_miss_cls_gen enum_default_as_name_gen wiring_gen.\n"
        "Definition config_loop_gen := config_loop str2bool_gen enum_miss_cls_gen encode_table_gen extensions_gen enum_default_as_name_gen wiring_gen.\n"
        "Definition config_run_gen := config_run str2bool_gen enum_miss_cls_gen encode_table_gen extensions_gen enum_default_as_name_gen wiring_gen.\n"
    )
