"""Shared helpers for the fail-closed ast translators.

Every helper raises `Unrecognised` when the monitored construct does not have a shape it knows; the
check then reports the tie as broken (never guesses)."""
from __future__ import annotations

import ast
import os


class Unrecognised(Exception):
    pass


def parse(repo: str, rel: str) -> ast.Module:
    path = os.path.join(repo, rel)
    try:
        return ast.parse(open(path).read(), filename=path)
    except (OSError, SyntaxError) as e:
        raise Unrecognised(f"cannot parse {rel}: {e}")


def find_def(tree, name, cls=None):
    body = tree.body
    if cls is not None:
        c = [n for n in body if isinstance(n, ast.ClassDef) and n.name == cls]
        if len(c) != 1:
            raise Unrecognised(f"class {cls} not found exactly once")
        body = c[0].body
    f = [n for n in body if isinstance(n, (ast.FunctionDef, ast.AsyncFunctionDef)) and n.name == name]
    if not f:
        raise Unrecognised(f"def {cls + '.' if cls else ''}{name} not found")
    return f[-1]  # the last definition wins at run time (overloads come first)


def find_class(tree, name):
    c = [n for n in tree.body if isinstance(n, ast.ClassDef) and n.name == name]
    if len(c) != 1:
        raise Unrecognised(f"class {name} not found exactly once")
    return c[0]


def module_assign(tree_or_body, name):
    """Value node of the (single) module/class level assignment `name = ...` / `name: T = ...`."""
    body = tree_or_body.body if hasattr(tree_or_body, "body") else tree_or_body
    found = []
    for n in body:
        if isinstance(n, ast.Assign) and len(n.targets) == 1 and isinstance(n.targets[0], ast.Name) and n.targets[0].id == name:
            found.append(n.value)
        if isinstance(n, ast.AnnAssign) and isinstance(n.target, ast.Name) and n.target.id == name and n.value is not None:
            found.append(n.value)
    if len(found) != 1:
        raise Unrecognised(f"assignment to {name} not found exactly once ({len(found)})")
    return found[0]


def const(node, typ=None):
    if not isinstance(node, ast.Constant):
        raise Unrecognised(f"expected a literal, got {ast.dump(node)[:80]}")
    if typ is not None and not isinstance(node.value, typ):
        raise Unrecognised(f"expected a {typ} literal, got {node.value!r}")
    return node.value


def str_list(node):
    if not isinstance(node, (ast.List, ast.Tuple)):
        raise Unrecognised(f"expected a list literal, got {ast.dump(node)[:80]}")
    return [const(e, str) for e in node.elts]


def strip_docstring(body):
    if body and isinstance(body[0], ast.Expr) and isinstance(body[0].value, ast.Constant) and isinstance(body[0].value.value, str):
        return body[1:]
    return body


def is_logger_call(stmt):
    """logger.debug(...)/logger.info(...) statements are behaviour-neutral and skipped."""
    return (isinstance(stmt, ast.Expr) and isinstance(stmt.value, ast.Call)
            and isinstance(stmt.value.func, ast.Attribute) and isinstance(stmt.value.func.value, ast.Name)
            and stmt.value.func.value.id in ("logger", "logging", "warnings"))


def clean(body):
    return [s for s in strip_docstring(body) if not is_logger_call(s) and not isinstance(s, ast.Pass)]


def unparse(node):
    return ast.unparse(node)


def if_chain(stmt):
    """Flatten if/elif/.../else into ([(test, body)], else_body)."""
    arms = []
    cur = stmt
    while True:
        if not isinstance(cur, ast.If):
            raise Unrecognised("expected an if statement")
        arms.append((cur.test, clean(cur.body)))
        if len(cur.orelse) == 1 and isinstance(cur.orelse[0], ast.If):
            cur = cur.orelse[0]
            continue
        return arms, clean(cur.orelse)


def enum_members(tree, cls):
    c = find_class(tree, cls)
    out = []
    for n in clean(c.body):
        if isinstance(n, ast.Assign) and len(n.targets) == 1 and isinstance(n.targets[0], ast.Name):
            out.append((n.targets[0].id, n.value))
    return out


def kw_defaults(fn: ast.FunctionDef):
    """{param: default node} for positional and keyword-only parameters."""
    out = {}
    a = fn.args
    pos = a.posonlyargs + a.args
    for p, d in zip(pos[len(pos) - len(a.defaults):], a.defaults):
        out[p.arg] = d
    for p, d in zip(a.kwonlyargs, a.kw_defaults):
        if d is not None:
            out[p.arg] = d
    return out


# ---- emitting Gallina text -----------------------------------------------------------------------


def cstr(s: str) -> str:
    for ch in s:
        if ord(ch) < 32 or ord(ch) > 126:
            raise Unrecognised(f"non printable-ASCII string literal {s!r}")
    return '"' + s.replace('"', '""') + '"'


def cstrs(ss) -> str:
    return "[" + "; ".join(cstr(s) for s in ss) + "]"


HEADER = "From SPV Require Import Base.Str.\nOpen Scope string_scope.\n"


# ---- pinned shapes ---------------------------------------------------------------------------------
# Some helper functions are small, pure and modelled by hand; what ties them to the source deterministically is a PIN: the
# normalised source of the function body (docstring and comments dropped, `ast.unparse` layout) must equal one of the accepted
# texts in harness/translate/pinned/<name>[.k].txt.  Any edit — harmless or not — makes the translator fail closed; the check
# then searches for a failing input and reports the tie as broken.  Accepting a reviewed edit = adding a new accepted text
# (and re-validating the hand model against it by the correspondence).

PINNED_DIR = os.path.join(os.path.dirname(os.path.abspath(__file__)), "pinned")


def normalised_body(fn) -> str:
    return "\n".join(ast.unparse(s) for s in strip_docstring(fn.body)) + "\n"


def pin(fn, name: str) -> str:
    """Fail closed unless the body of `fn` equals an accepted text; returns a short digest for the generated file."""
    return pin_text(normalised_body(fn), name)


def pin_text(got: str, name: str) -> str:
    import difflib
    import glob
    import hashlib

    files = sorted(glob.glob(os.path.join(PINNED_DIR, name + ".txt")) + glob.glob(os.path.join(PINNED_DIR, name + ".*.txt")))
    if not files:
        raise Unrecognised(f"no pinned text for {name}")
    texts = [open(f).read() for f in files]
    if got not in texts:
        diff = "".join(list(difflib.unified_diff(texts[0].splitlines(True), got.splitlines(True), "pinned/" + name, "source"))[:40])
        raise Unrecognised(f"{name}: the source differs from every accepted (pinned) text:\n{diff}")
    return hashlib.sha256(got.encode()).hexdigest()[:16]
