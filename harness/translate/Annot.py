"""Facts for annotation handling (property C17).

From simple_parsing/annotation_utils/get_field_annotations.py:
  * forward_refs_to_types           -> FORWARD_REFS_GEN (name -> builtin it is bound to on the string path)
  * _get_old_style_annotation       -> the literals of the textual rewriter ("|", "[", "]", ",", "Union[", ", ", "]"),
                                       each tied to its role by an exact statement skeleton (fail closed), and the
                                       exception class of _not_supported
  * _replace_UnionType_with_typing_Union -> the `if <test>: ... return ...` dispatch in source order, each arm mapped to a
                                       known (test, action) pair, and the final raise (which inputs are refused); both
                                       shapes are recognised (with / without `if annotation is Ellipsis: return annotation`)
                                       and NORM_HANDLES_ELLIPSIS_GEN says which one the source has
  * get_field_type_from_annotations -> only checked: normalisation is applied to a top-level types.UnionType only, the
                                       rewriter to str annotations containing the bar only
From simple_parsing/utils.py: is_list / is_tuple / is_dict / builtin_types have the shapes the model assumes.
From simple_parsing/wrappers/dataclass_wrapper.py: the field kinds _get_dataclass_fields keeps, the skip condition of
DataclassWrapper.__init__, and that only str field types are re-resolved.

Output: coq/Gen/FactsAnnot.v (imports Model.Annot for the table types and instantiates the model)."""
from __future__ import annotations

import ast
import copy

from .pyast import Unrecognised, clean, const, cstr, find_def, module_assign, parse, unparse

GFA = "simple_parsing/annotation_utils/get_field_annotations.py"


# ---- the rewriter ---------------------------------------------------------------------------------

REWRITER_SKELETON = """\
def _get_old_style_annotation(annotation: str) -> str:
    if '<0>' not in annotation:
        return annotation
    annotation = annotation.strip()
    if '<1>' not in annotation:
        assert '<2>' not in annotation
        return '<3>' + '<4>'.join((v.strip() for v in annotation.split('<5>'))) + '<6>'
    before, lsep, rest = annotation.partition('<7>')
    middle, rsep, after = rest.rpartition('<8>')
    assert not after.strip()
    if '<9>' in before or '<10>' in after:
        _not_supported(annotation)
    assert '<11>' in middle
    if '<12>' in middle:
        parts = [v.strip() for v in middle.split('<13>')]
        parts = [_get_old_style_annotation(part) for part in parts]
        middle = '<14>'.join(parts)
    new_middle = _get_old_style_annotation(annotation=middle)
    new_annotation = before + lsep + new_middle + rsep + after
    return new_annotation"""

ROLES = {"bar": [0, 5, 9, 10, 11], "lbr": [1, 7], "rbr": [2, 8], "union_open": [3], "join": [4, 14],
         "union_close": [6], "comma": [12, 13]}


class _Holes(ast.NodeTransformer):
    """String literals -> numbered holes, in source order; assertion messages (behaviour-neutral) dropped."""

    def __init__(self):
        self.found = []

    def visit_Assert(self, node):
        node.msg = None
        self.generic_visit(node)
        return node

    def visit_Constant(self, node):
        if isinstance(node.value, str):
            self.found.append(node.value)
            return ast.copy_location(ast.Constant(value=f"<{len(self.found) - 1}>"), node)
        return node


def _rewriter_facts(tree):
    fn = copy.deepcopy(find_def(tree, "_get_old_style_annotation"))
    fn.body = clean(fn.body)
    fn.decorator_list = []
    h = _Holes()
    fn = ast.fix_missing_locations(h.visit(fn))
    got = unparse(fn)
    if got != REWRITER_SKELETON:
        import difflib
        d = "\n".join(list(difflib.unified_diff(REWRITER_SKELETON.splitlines(), got.splitlines(), lineterm="", n=0))[:12])
        raise Unrecognised("_get_old_style_annotation no longer has the statement skeleton the model follows:\n" + d)
    out = {}
    for role, idxs in ROLES.items():
        vals = {h.found[i] for i in idxs}
        if len(vals) != 1:
            raise Unrecognised(f"_get_old_style_annotation: the literals in the role '{role}' differ: {sorted(vals)}")
        out[role] = vals.pop()
    for role in ("bar", "lbr", "rbr", "comma"):
        if len(out[role]) != 1:
            raise Unrecognised(f"_get_old_style_annotation: '{role}' literal {out[role]!r} is not one character")
    ns = clean(find_def(tree, "_not_supported").body)
    if len(ns) != 1 or not isinstance(ns[0], ast.Raise) or not isinstance(ns[0].exc, ast.Call) \
            or not isinstance(ns[0].exc.func, ast.Name):
        raise Unrecognised("_not_supported is no longer a single `raise Cls(...)`")
    out["not_supported"] = ns[0].exc.func.id
    return out


# ---- the normaliser -------------------------------------------------------------------------------

R = "_replace_UnionType_with_typing_Union"
NORM_TESTS = {
    "isinstance(annotation, types.UnionType)": "NIsUnionType",
    "is_list(annotation)": "NIsList",
    "is_tuple(annotation)": "NIsTuple",
    "is_dict(annotation)": "NIsDict",
    "annotation in builtin_types": "NInBuiltins",
    "inspect.isclass(annotation)": "NIsClass",
    "annotation is Ellipsis": "NIsEllipsis",
    "annotation is ...": "NIsEllipsis",
}
NORM_BODIES = {
    "AUnion": ["union_args = typing.get_args(annotation)",
               f"new_union_args = tuple(({R}(arg) for arg in union_args))",
               "return typing.Union[new_union_args]"],
    "AList": ["item_annotation = typing.get_args(annotation)[0]",
              f"new_item_annotation = {R}(item_annotation)",
              "return list[new_item_annotation]"],
    "ATuple": ["item_annotations = typing.get_args(annotation)",
               f"new_item_annotations = tuple(({R}(arg) for arg in item_annotations))",
               "return tuple[new_item_annotations]"],
    "ADict": ["annotations = typing.get_args(annotation)",
              "if not annotations:\n    return dict",
              "assert len(annotations) == 2",
              "key_annotation = annotations[0]",
              "value_annotation = annotations[1]",
              f"new_key_annotation = {R}(key_annotation)",
              f"new_value_annotation = {R}(value_annotation)",
              "return dict[new_key_annotation, new_value_annotation]"],
    "AId": ["return annotation"],
}


def _raise_name(stmt):
    if not isinstance(stmt, ast.Raise) or stmt.exc is None:
        raise Unrecognised(f"{R}: expected a raise, got {unparse(stmt)[:80]}")
    exc = stmt.exc.func if isinstance(stmt.exc, ast.Call) else stmt.exc
    if isinstance(exc, ast.Name):
        return exc.id
    raise Unrecognised(f"{R}: raise of {unparse(stmt)[:80]}")


def _norm_facts(tree):
    fn = find_def(tree, R)
    if [a.arg for a in fn.args.args] != ["annotation"]:
        raise Unrecognised(f"{R} signature")
    body = clean(fn.body)
    if not body or unparse(body[0]) != "from simple_parsing.utils import builtin_types, is_dict, is_list, is_tuple":
        raise Unrecognised(f"{R}: the predicates are no longer imported from simple_parsing.utils")
    body = body[1:]
    # the interpreter under test is >= 3.10: the early return for older interpreters is dead code there
    if body and unparse(body[0]) == "if sys.version_info[:2] < (3, 10):\n    return annotation":
        body = body[1:]
    else:
        raise Unrecognised(f"{R}: version guard changed")
    if not body:
        raise Unrecognised(f"{R}: empty dispatch")
    rows = []
    for s in body[:-1]:
        if not isinstance(s, ast.If) or s.orelse:
            raise Unrecognised(f"{R}: statement that is not a plain `if`: {unparse(s)[:80]}")
        test = NORM_TESTS.get(unparse(s.test))
        if test is None:
            raise Unrecognised(f"{R}: test {unparse(s.test)[:80]}")
        texts = [unparse(x) for x in clean(s.body)]
        act = [a for a, want in NORM_BODIES.items() if want == texts]
        if len(act) != 1:
            raise Unrecognised(f"{R}: body of the arm `{unparse(s.test)}` is not one of the known actions: "
                               + " | ".join(texts)[:200])
        if test == "NIsEllipsis" and act[0] != "AId":
            raise Unrecognised(f"{R}: the Ellipsis arm does something else than returning the annotation")
        rows.append(f"({test}, {act[0]})")
    # both shapes of the function are recognised: with and without the arm that lets the `...` of tuple[X, ...] through
    handles_ellipsis = "(NIsEllipsis, AId)" in rows
    return "[" + "; ".join(rows) + "]", f"ARaise {cstr(_raise_name(body[-1]))}", handles_ellipsis


# ---- shape checks (nothing emitted beyond a marker) -----------------------------------------------

def _require_stmt(fn, text, what):
    for node in ast.walk(fn):
        if isinstance(node, ast.stmt) and unparse(node) == text:
            return
    raise Unrecognised(f"{what}: statement not found: {text[:120]}")


def _forward_refs(tree):
    d = module_assign(tree, "forward_refs_to_types")
    if not isinstance(d, ast.Dict):
        raise Unrecognised("forward_refs_to_types is not a dict literal")
    out = []
    for k, v in zip(d.keys, d.values):
        if k is None or not isinstance(v, ast.Name):
            raise Unrecognised("forward_refs_to_types: entry that is not 'name': builtin")
        out.append((const(k, str), v.id))
    return out


def _field_kinds(dw):
    fn = find_def(dw, "_get_dataclass_fields")
    kinds = None
    for node in ast.walk(fn):
        if isinstance(node, ast.comprehension):
            if len(node.ifs) != 1 or unparse(node.iter) != "dataclass_fields_map.values()":
                raise Unrecognised("_get_dataclass_fields: comprehension changed")
            t = node.ifs[0]
            if not (isinstance(t, ast.Compare) and len(t.ops) == 1 and isinstance(t.ops[0], ast.In)
                    and unparse(t.left) == "field._field_type" and isinstance(t.comparators[0], ast.Tuple)):
                raise Unrecognised("_get_dataclass_fields: filter changed")
            names = {"dataclasses._FIELD": "KField", "dataclasses._FIELD_INITVAR": "KInitVar",
                     "dataclasses._FIELD_CLASSVAR": "KClassVar"}
            kinds = []
            for e in t.comparators[0].elts:
                if unparse(e) not in names:
                    raise Unrecognised(f"_get_dataclass_fields: kind {unparse(e)}")
                kinds.append(names[unparse(e)])
    if kinds is None:
        raise Unrecognised("_get_dataclass_fields: no filter found")
    _require_stmt(fn, "dataclass_fields_map = getattr(dataclass, dataclasses._FIELDS)", "_get_dataclass_fields")
    return kinds


def emit(repo: str) -> str:
    gfa = parse(repo, GFA)
    utils = parse(repo, "simple_parsing/utils.py")
    dw = parse(repo, "simple_parsing/wrappers/dataclass_wrapper.py")
    fw = parse(repo, "simple_parsing/wrappers/field_wrapper.py")

    refs = _forward_refs(gfa)
    rw = _rewriter_facts(gfa)
    table, els, handles_ellipsis = _norm_facts(gfa)

    # utils: the predicates the dispatch relies on
    for name, want in (("is_list", ["return list in _mro(t)"]), ("is_tuple", ["return tuple in _mro(t)"]),
                       ("is_dict", ["mro = _mro(t)", "return dict in mro or Mapping in mro or c_abc.Mapping in mro"])):
        b = clean(find_def(utils, name).body)
        if [unparse(x) for x in b] != want:
            raise Unrecognised(f"utils.{name} changed")
    bt = unparse(module_assign(utils, "builtin_types"))
    if bt != "[getattr(builtins, d) for d in dir(builtins) if isinstance(getattr(builtins, d), type)]":
        raise Unrecognised("utils.builtin_types changed")

    # get_field_type_from_annotations: where the two repairs are applied
    g = find_def(gfa, "get_field_type_from_annotations")
    _require_stmt(g, "if sys.version_info >= (3, 10) and isinstance(field_type, types.UnionType):\n"
                     f"    field_type = {R}(field_type)", "get_field_type_from_annotations")
    _require_stmt(g, "if isinstance(field_type, str) and '|' in field_type:\n"
                     "    field_type = _get_old_style_annotation(field_type)", "get_field_type_from_annotations")
    _require_stmt(g, "local_ns.update(forward_refs_to_types)", "get_field_type_from_annotations")
    e = find_def(gfa, "evaluate_string_annotation")
    _require_stmt(e, "if '|' in annotation:\n    annotation = _get_old_style_annotation(annotation)",
                  "evaluate_string_annotation")
    _require_stmt(e, "local_ns.update(forward_refs_to_types)", "evaluate_string_annotation")

    # DataclassWrapper.__init__: which fields become arguments, when the type is re-resolved
    kinds = _field_kinds(dw)
    init = find_def(dw, "__init__", cls="DataclassWrapper")
    _require_stmt(init, "dataclass_fields: tuple[dataclasses.Field, ...] = _get_dataclass_fields(dataclass)",
                  "DataclassWrapper.__init__")
    loop = [n for n in ast.walk(init) if isinstance(n, ast.For) and unparse(n.iter) == "dataclass_fields"]
    if len(loop) != 1:
        raise Unrecognised("DataclassWrapper.__init__: loop over dataclass_fields")
    lb = clean(loop[0].body)
    if len(lb) < 2 or unparse(lb[0]) != "if not field.init or field.metadata.get('cmd', True) is False:\n    continue":
        raise Unrecognised("DataclassWrapper.__init__: skip condition changed")
    want = ("if isinstance(field.type, str):\n"
            "    from simple_parsing.annotation_utils.get_field_annotations import get_field_type_from_annotations\n"
            "    field_type = get_field_type_from_annotations(self.dataclass, field.name)\n"
            "    field.type = field_type\n"
            "else:\n    field_type = field.type")
    if unparse(ast.If(test=lb[1].test, body=clean(lb[1].body), orelse=clean(lb[1].orelse))
               if isinstance(lb[1], ast.If) else lb[1]) != want:
        raise Unrecognised("DataclassWrapper.__init__: re-resolution of str field types changed")
    # FieldWrapper.type: str -> get_field_type_from_annotations, InitVar -> .type
    ft = find_def(fw, "type", cls="FieldWrapper")
    _require_stmt(ft, "field_type = get_field_type_from_annotations(self.parent.dataclass, self.field.name)", "FieldWrapper.type")
    tests = [unparse(n.test) for n in ast.walk(ft) if isinstance(n, ast.If)]
    if tests != ["self._type is None", "isinstance(self._type, str)", "isinstance(self._type, dataclasses.InitVar)"]:
        raise Unrecognised("FieldWrapper.type: decision chain changed: " + " | ".join(tests))

    def ch(s):
        return cstr(s) + "%char"

    pairs = "; ".join(f"({cstr(k)}, {cstr(v)})" for k, v in refs)
    return (
        "From SPV Require Import Base.Str Model.Annot.\nOpen Scope string_scope.\n"
        f"Definition FORWARD_REFS_GEN : list (string * string) := [{pairs}].\n"
        f"Definition RW_BAR_GEN : ascii := {ch(rw['bar'])}.\n"
        f"Definition RW_LBR_GEN : ascii := {ch(rw['lbr'])}.\n"
        f"Definition RW_RBR_GEN : ascii := {ch(rw['rbr'])}.\n"
        f"Definition RW_COMMA_GEN : ascii := {ch(rw['comma'])}.\n"
        f"Definition RW_UNION_OPEN_GEN : string := {cstr(rw['union_open'])}.\n"
        f"Definition RW_JOIN_GEN : string := {cstr(rw['join'])}.\n"
        f"Definition RW_UNION_CLOSE_GEN : string := {cstr(rw['union_close'])}.\n"
        f"Definition RW_NOT_SUPPORTED_GEN : string := {cstr(rw['not_supported'])}.\n"
        f"Definition NORM_TABLE_GEN : list (ntest * nact) := {table}.\n"
        f"Definition NORM_ELSE_GEN : nact := {els}.\n"
        f"Definition NORM_HANDLES_ELLIPSIS_GEN : bool := {'true' if handles_ellipsis else 'false'}.\n"
        f"Definition FIELD_KINDS_GEN : list fkind := [{'; '.join(kinds)}].\n"
        "(* the model instantiated with the regenerated facts *)\n"
        "Definition old_style_fuel_gen := old_style_fuel RW_BAR_GEN RW_LBR_GEN RW_RBR_GEN RW_COMMA_GEN\n"
        "  (chars RW_UNION_OPEN_GEN) (chars RW_JOIN_GEN) (chars RW_UNION_CLOSE_GEN) RW_NOT_SUPPORTED_GEN.\n"
        "Definition old_style_gen := old_style RW_BAR_GEN RW_LBR_GEN RW_RBR_GEN RW_COMMA_GEN\n"
        "  (chars RW_UNION_OPEN_GEN) (chars RW_JOIN_GEN) (chars RW_UNION_CLOSE_GEN) RW_NOT_SUPPORTED_GEN.\n"
        "Definition norm_gen := norm NORM_TABLE_GEN NORM_ELSE_GEN.\n"
        "Definition resolve_gen := resolve NORM_TABLE_GEN NORM_ELSE_GEN FORWARD_REFS_GEN.\n"
        "Definition wrapper_fields_gen := wrapper_fields FIELD_KINDS_GEN.\n"
        "Definition field_types_gen := field_types NORM_TABLE_GEN NORM_ELSE_GEN FORWARD_REFS_GEN FIELD_KINDS_GEN.\n"
    )
