"""Facts for annotation handling (property C17).

From simple_parsing/annotation_utils/get_field_annotations.py:
  * forward_refs_to_types           -> FORWARD_REFS_GEN (name -> builtin it is bound to on the string path)
  * _get_old_style_annotation       -> the literals of the textual rewriter ("|", "[", "]", ",", "Union[", ", ", "]"),
                                       each tied to its role by an exact statement skeleton (fail closed), and the
                                       exception class of _not_supported
  * _replace_UnionType_with_typing_Union -> the `if <test>: ... return ...` dispatch in source order, each arm mapped to a
                                       known (test, action) pair, and the final raise (which inputs are refused); both
                                       shapes are recognised (with / without `if annotation is Ellipsis: return annotation`)
                                       and NORM_HANDLES_ELLIPSIS_GEN says which one the source has
  * get_field_type_from_annotations -> only checked: normalisation is applied to a top-level types.UnionType only, the
                                       rewriter to str annotations containing the bar only
From simple_parsing/utils.py: is_list / is_tuple / is_dict / builtin_types have the shapes the model assumes.
From simple_parsing/wrappers/dataclass_wrapper.py: the field kinds _get_dataclass_fields keeps, the skip condition of
DataclassWrapper.__init__, and that only str field types are re-resolved.

Output: coq/Gen/FactsAnnot.v (imports Model.Annot for the table types and instantiates the model)."""
from __future__ import annotations

import ast
import copy

from .pyast import Unrecognised, clean, const, cstr, cstrs, find_def, if_chain, module_assign, parse, unparse

GFA = "simple_parsing/annotation_utils/get_field_annotations.py"


# ---- the rewriter ---------------------------------------------------------------------------------

REWRITER_SKELETON = """\
def _get_old_style_annotation(annotation: str) -> str:
    if '<0>' not in annotation:
        return annotation
    annotation = annotation.strip()
    if '<1>' not in annotation:
        assert '<2>' not in annotation
        return '<3>' + '<4>'.join((v.strip() for v in annotation.split('<5>'))) + '<6>'
    before, lsep, rest = annotation.partition('<7>')
    middle, rsep, after = rest.rpartition('<8>')
    assert not after.strip()
    if '<9>' in before or '<10>' in after:
        _not_supported(annotation)
    assert '<11>' in middle
    if '<12>' in middle:
        parts = [v.strip() for v in middle.split('<13>')]
        parts = [_get_old_style_annotation(part) for part in parts]
        middle = '<14>'.join(parts)
    new_middle = _get_old_style_annotation(annotation=middle)
    new_annotation = before + lsep + new_middle + rsep + after
    return new_annotation"""

ROLES = {"bar": [0, 5, 9, 10, 11], "lbr": [1, 7], "rbr": [2, 8], "union_open": [3], "join": [4, 14],
         "union_close": [6], "comma": [12, 13]}


class _Holes(ast.NodeTransformer):
    """String literals -> numbered holes, in source order; assertion messages (behaviour-neutral) dropped."""

    def __init__(self):
        self.found = []

    def visit_Assert(self, node):
        node.msg = None
        self.generic_visit(node)
        return node

    def visit_Constant(self, node):
        if isinstance(node.value, str):
            self.found.append(node.value)
            return ast.copy_location(ast.Constant(value=f"<{len(self.found) - 1}>"), node)
        return node


def _rewriter_facts(tree):
    fn = copy.deepcopy(find_def(tree, "_get_old_style_annotation"))
    fn.body = clean(fn.body)
    fn.decorator_list = []
    h = _Holes()
    fn = ast.fix_missing_locations(h.visit(fn))
    got = unparse(fn)
    if got != REWRITER_SKELETON:
        import difflib
        d = "\n".join(list(difflib.unified_diff(REWRITER_SKELETON.splitlines(), got.splitlines(), lineterm="", n=0))[:12])
        raise Unrecognised("_get_old_style_annotation no longer has the statement skeleton the model follows:\n" + d)
    out = {}
    for role, idxs in ROLES.items():
        vals = {h.found[i] for i in idxs}
        if len(vals) != 1:
            raise Unrecognised(f"_get_old_style_annotation: the literals in the role '{role}' differ: {sorted(vals)}")
        out[role] = vals.pop()
    for role in ("bar", "lbr", "rbr", "comma"):
        if len(out[role]) != 1:
            raise Unrecognised(f"_get_old_style_annotation: '{role}' literal {out[role]!r} is not one character")
    ns = clean(find_def(tree, "_not_supported").body)
    if len(ns) != 1 or not isinstance(ns[0], ast.Raise) or not isinstance(ns[0].exc, ast.Call) \
            or not isinstance(ns[0].exc.func, ast.Name):
        raise Unrecognised("_not_supported is no longer a single `raise Cls(...)`")
    out["not_supported"] = ns[0].exc.func.id
    return out


# ---- the normaliser -------------------------------------------------------------------------------

R = "_replace_UnionType_with_typing_Union"
NORM_TESTS = {
    "isinstance(annotation, types.UnionType)": "NIsUnionType",
    "is_list(annotation)": "NIsList",
    "is_tuple(annotation)": "NIsTuple",
    "is_dict(annotation)": "NIsDict",
    "annotation in builtin_types": "NInBuiltins",
    "inspect.isclass(annotation)": "NIsClass",
    "annotation is Ellipsis": "NIsEllipsis",
    "annotation is ...": "NIsEllipsis",
}
NORM_BODIES = {
    "AUnion": ["union_args = typing.get_args(annotation)",
               f"new_union_args = tuple(({R}(arg) for arg in union_args))",
               "return typing.Union[new_union_args]"],
    "AList": ["item_annotation = typing.get_args(annotation)[0]",
              f"new_item_annotation = {R}(item_annotation)",
              "return list[new_item_annotation]"],
    "ATuple": ["item_annotations = typing.get_args(annotation)",
               f"new_item_annotations = tuple(({R}(arg) for arg in item_annotations))",
               "return tuple[new_item_annotations]"],
    "ADict": ["annotations = typing.get_args(annotation)",
              "if not annotations:\n    return dict",
              "assert len(annotations) == 2",
              "key_annotation = annotations[0]",
              "value_annotation = annotations[1]",
              f"new_key_annotation = {R}(key_annotation)",
              f"new_value_annotation = {R}(value_annotation)",
              "return dict[new_key_annotation, new_value_annotation]"],
    "AId": ["return annotation"],
}


def _raise_name(stmt):
    if not isinstance(stmt, ast.Raise) or stmt.exc is None:
        raise Unrecognised(f"{R}: expected a raise, got {unparse(stmt)[:80]}")
    exc = stmt.exc.func if isinstance(stmt.exc, ast.Call) else stmt.exc
    if isinstance(exc, ast.Name):
        return exc.id
    raise Unrecognised(f"{R}: raise of {unparse(stmt)[:80]}")


def _norm_facts(tree):
    fn = find_def(tree, R)
    if [a.arg for a in fn.args.args] != ["annotation"]:
        raise Unrecognised(f"{R} signature")
    body = clean(fn.body)
    if not body or unparse(body[0]) != "from simple_parsing.utils import builtin_types, is_dict, is_list, is_tuple":
        raise Unrecognised(f"{R}: the predicates are no longer imported from simple_parsing.utils")
    body = body[1:]
    # the interpreter under test is >= 3.10: the early return for older interpreters is dead code there
    if body and unparse(body[0]) == "if sys.version_info[:2] < (3, 10):\n    return annotation":
        body = body[1:]
    else:
        raise Unrecognised(f"{R}: version guard changed")
    if not body:
        raise Unrecognised(f"{R}: empty dispatch")
    rows = []
    for s in body[:-1]:
        if not isinstance(s, ast.If) or s.orelse:
            raise Unrecognised(f"{R}: statement that is not a plain `if`: {unparse(s)[:80]}")
        test = NORM_TESTS.get(unparse(s.test))
        if test is None:
            raise Unrecognised(f"{R}: test {unparse(s.test)[:80]}")
        texts = [unparse(x) for x in clean(s.body)]
        act = [a for a, want in NORM_BODIES.items() if want == texts]
        if len(act) != 1:
            raise Unrecognised(f"{R}: body of the arm `{unparse(s.test)}` is not one of the known actions: "
                               + " | ".join(texts)[:200])
        if test == "NIsEllipsis" and act[0] != "AId":
            raise Unrecognised(f"{R}: the Ellipsis arm does something else than returning the annotation")
        rows.append(f"({test}, {act[0]})")
    # both shapes of the function are recognised: with and without the arm that lets the `...` of tuple[X, ...] through
    handles_ellipsis = "(NIsEllipsis, AId)" in rows
    return "[" + "; ".join(rows) + "]", f"ARaise {cstr(_raise_name(body[-1]))}", handles_ellipsis


# ---- utils predicates and the wrapper dispatch (tie audit) ----------------------------------------

def ctext(fn):
    """unparse of a function with docstrings, logger calls and `pass` removed at every level"""
    fn = copy.deepcopy(fn)
    for n in ast.walk(fn):
        if isinstance(getattr(n, "body", None), list):
            n.body = clean(n.body) or [ast.Pass()]
        if isinstance(getattr(n, "orelse", None), list):
            n.orelse = clean(n.orelse)
    if hasattr(fn, "decorator_list"):
        fn.decorator_list = []
    return unparse(fn)


EXACT = {
    ("utils", "get_type_arguments"): "def get_type_arguments(container_type: type) -> tuple[type, ...]:\n    return get_args(container_type)",
    ("utils", "get_dataclass_type_arg"): (
        "def get_dataclass_type_arg(t: type) -> type | None:\n"
        "    if not contains_dataclass_type_arg(t):\n        return None\n"
        "    if is_dataclass_type_or_typevar(t):\n        return t\n"
        "    elif is_tuple_or_list(t) or is_union(t):\n"
        "        return next(filter(None, (get_dataclass_type_arg(arg) for arg in get_type_arguments(t))), None)\n"
        "    return None"),
    ("utils", "is_tuple_or_list_of_dataclasses"): (
        "def is_tuple_or_list_of_dataclasses(t: type) -> bool:\n"
        "    return is_tuple_or_list(t) and is_dataclass_type_or_typevar(get_item_type(t))"),
    ("utils", "is_tuple_or_list"): "def is_tuple_or_list(t: type) -> bool:\n    return is_list(t) or is_tuple(t)",
    ("utils", "is_dataclass_type_or_typevar"): (
        "def is_dataclass_type_or_typevar(t: type) -> bool:\n"
        "    return dataclasses.is_dataclass(t) or (is_typevar(t) and dataclasses.is_dataclass(get_bound(t)))"),
    ("utils", "get_item_type"): (
        "def get_item_type(container_type: type[Container[T]]) -> T:\n"
        "    if container_type in {list, set, tuple, list, set, tuple, dict, Mapping, MutableMapping}:\n        return Any\n"
        "    type_arguments = getattr(container_type, '__args__', None)\n"
        "    if type_arguments:\n        return type_arguments[0]\n    else:\n        return Any"),
    ("utils", "is_subparser_field"): (
        "def is_subparser_field(field: Field) -> bool:\n"
        "    if is_union(field.type) and (not is_choice(field)):\n"
        "        type_arguments = get_type_arguments(field.type)\n"
        "        return all(map(dataclasses.is_dataclass, type_arguments))\n"
        "    return bool(field.metadata.get('subparsers', {}))"),
    ("utils", "is_choice"): "def is_choice(field: Field) -> bool:\n    return bool(field.metadata.get('custom_args', {}).get('choices', {}))",
    ("utils", "is_optional"): (
        "def is_optional(t: type) -> bool:\n"
        "    if is_union(t) and type(None) in get_type_arguments(t):\n        return True\n"
        "    elif is_literal(t) and None in get_type_arguments(t):\n        return True\n"
        "    else:\n        return False"),
    ("fw", "type"): (
        "def type(self) -> type[Any]:\n"
        "    if self._type is None:\n"
        "        self._type = self.field.type\n"
        "        if isinstance(self._type, str):\n"
        "            from simple_parsing.annotation_utils.get_field_annotations import get_field_type_from_annotations\n"
        "            field_type = get_field_type_from_annotations(self.parent.dataclass, self.field.name)\n"
        "            self._type = field_type\n"
        "        elif isinstance(self._type, dataclasses.InitVar):\n"
        "            self._type = self._type.type\n"
        "    return self._type"),
    ("gfa", "evaluate_string_annotation"): (
        "def evaluate_string_annotation(annotation: str, containing_class: Optional[type]=None) -> type:\n"
        "    local_ns: dict[str, Any] = {'typing': typing, **vars(typing)}\n"
        "    local_ns.update(forward_refs_to_types)\n"
        "    global_ns = {}\n"
        "    if containing_class:\n"
        "        global_ns = sys.modules[containing_class.__module__].__dict__\n"
        "    if '|' in annotation:\n"
        "        annotation = _get_old_style_annotation(annotation)\n"
        "    evaluated_t: type = eval(annotation, local_ns, global_ns)\n"
        "    return evaluated_t"),
}

# get_field_type_from_annotations: everything up to `field_type = annotations_dict[field_name]` (namespaces, frame walk,
# get_type_hints, TypeError fallback) is compared as a whole; the statements after it are the regenerated steps
GFT_HEAD = """\
local_ns: dict[str, Any] = {'typing': typing, **vars(typing)}
local_ns.update(forward_refs_to_types)
frame = inspect.currentframe()
while frame.f_back is not None and frame.f_locals.get(some_class.__name__) is not some_class:
    frame = frame.f_back
if frame is not None:
    local_ns.update(frame.f_locals)
global_ns = {}
classes_to_iterate = list(dropwhile(lambda cls: field_name not in getattr(cls, '__annotations__', {}), some_class.mro()))
for base_cls in reversed(classes_to_iterate):
    global_ns.update(sys.modules[base_cls.__module__].__dict__)
try:
    with _initvar_patcher():
        annotations_dict = get_type_hints(some_class, localns=local_ns, globalns=global_ns)
except TypeError:
    annotations_dict = collections.ChainMap(*[getattr(cls, '__annotations__', {}) for cls in some_class.mro()])
if field_name not in annotations_dict:
    raise ValueError(f'Field {field_name} not found in annotations of class {some_class}')
field_type = annotations_dict[field_name]"""
GFT_STEPS = {
    "if sys.version_info[:2] >= (3, 7) and isinstance(field_type, typing.ForwardRef):\n"
    "    forward_arg = field_type.__forward_arg__\n    field_type = forward_arg": "SForwardRefArg",
    f"if sys.version_info >= (3, 10) and isinstance(field_type, types.UnionType):\n    field_type = {R}(field_type)":
        "SNormTopUnionType",
    "if isinstance(field_type, str) and '|' in field_type:\n    field_type = _get_old_style_annotation(field_type)":
        "SRewriteStrBar",
    "try:\n\n    class Temp_:\n        pass\n    Temp_.__annotations__ = {field_name: field_type}\n"
    "    with _initvar_patcher():\n        annotations_dict = get_type_hints(Temp_, globalns=global_ns, localns=local_ns)\n"
    "    field_type = annotations_dict[field_name]\nexcept Exception:\n    field_type = field_type": "SReevaluate",
}


def _exact(tree, key, name, cls=None):
    got = ctext(find_def(tree, name, cls=cls))
    if got != EXACT[key]:
        import difflib
        d = "\n".join(list(difflib.unified_diff(EXACT[key].splitlines(), got.splitlines(), lineterm="", n=0))[:10])
        raise Unrecognised(f"{key[0]}.{name} no longer has the text the model follows:\n{d}")


def _mro_facts(utils):
    fn = find_def(utils, "_mro")
    if [a.arg for a in fn.args.args] != ["t"]:
        raise Unrecognised("utils._mro signature")
    tests = {"t is None": "MIsNone", "hasattr(t, '__mro__')": "MHasDunderMro", "get_origin(t) is type": "MOriginIsType",
             "hasattr(t, 'mro') and callable(t.mro)": "MHasMroMethod"}
    answers = {"return []": "MEmpty", "return t.__mro__": "MDunderMro", "return t.mro()": "MCallMro"}
    rows, els = [], None
    body = clean(fn.body)
    for i, st in enumerate(body):
        if isinstance(st, ast.If):
            arms, tail = if_chain(st)
            if tail:
                raise Unrecognised("utils._mro: else branch")
            for test, b in arms:
                t, a = tests.get(unparse(test)), answers.get("\n".join(unparse(x) for x in b))
                if t is None or a is None:
                    raise Unrecognised(f"utils._mro: arm `{unparse(test)}`")
                rows.append(f"({t}, {a})")
        elif isinstance(st, ast.Return) and i == len(body) - 1:
            els = answers.get(unparse(st))
        else:
            raise Unrecognised(f"utils._mro: statement {unparse(st)[:60]}")
    if els is None:
        raise Unrecognised("utils._mro: no final return")
    return "[" + "; ".join(rows) + "]", els


def _in_mro_names(utils, name):
    """`return X in _mro(t)` or `mro = _mro(t); return A in mro or B in mro ...` -> the class names looked for"""
    b = clean(find_def(utils, name).body)

    def nm(e):
        if isinstance(e, ast.Name):
            return e.id
        if isinstance(e, ast.Attribute):
            return e.attr
        raise Unrecognised(f"utils.{name}: looked-for class {unparse(e)}")

    def member(e, container):
        if not (isinstance(e, ast.Compare) and len(e.ops) == 1 and isinstance(e.ops[0], ast.In)
                and unparse(e.comparators[0]) == container):
            raise Unrecognised(f"utils.{name}: {unparse(e)}")
        return nm(e.left)

    if len(b) == 1 and isinstance(b[0], ast.Return):
        return [member(b[0].value, "_mro(t)")]
    if len(b) == 2 and unparse(b[0]) == "mro = _mro(t)" and isinstance(b[1], ast.Return) \
            and isinstance(b[1].value, ast.BoolOp) and isinstance(b[1].value.op, ast.Or):
        return [member(v, "mro") for v in b[1].value.values]
    raise Unrecognised(f"utils.{name} changed")


def _is_union_kinds(utils):
    b = [unparse(x) for x in clean(find_def(utils, "is_union").body)]
    known = {"if sys.version_info[:2] >= (3, 10) and isinstance(t, types.UnionType):\n    return True": "UKUnionType",
             "return getattr(t, '__origin__', '') == Union": "UKTypingUnion"}
    out = []
    for i, t in enumerate(b):
        if t not in known or (t.startswith("return") and i != len(b) - 1):
            raise Unrecognised(f"utils.is_union: statement {t[:80]}")
        out.append(known[t])
    if not b or not b[-1].startswith("return"):
        raise Unrecognised("utils.is_union: no final return")
    return out


def _contains_chain(utils):
    fn = find_def(utils, "contains_dataclass_type_arg")
    body = clean(fn.body)
    if len(body) != 2 or not isinstance(body[0], ast.If) or unparse(body[1]) != "return False":
        raise Unrecognised("utils.contains_dataclass_type_arg: shape")
    arms, tail = if_chain(body[0])
    if tail:
        raise Unrecognised("utils.contains_dataclass_type_arg: else branch")
    tests = {"is_dataclass_type_or_typevar(t)": "CTIsDataclass", "is_tuple_or_list_of_dataclasses(t)": "CTSeqOfDataclasses",
             "is_union(t)": "CTIsUnion"}
    answers = {"return True": "CATrue",
               "return any((contains_dataclass_type_arg(arg) for arg in get_type_arguments(t)))": "CAAnyArg",
               "return False": "CAFalse"}
    rows = []
    for test, b in arms:
        t, a = tests.get(unparse(test)), answers.get("\n".join(unparse(x) for x in b))
        if t is None or a is None:
            raise Unrecognised(f"utils.contains_dataclass_type_arg: arm `{unparse(test)}`")
        rows.append(f"({t}, {a})")
    return "[" + "; ".join(rows) + "]", "CAFalse"


def _wrap_chain(loop_body):
    """the statements of DataclassWrapper.__init__'s loop that decide between a FieldWrapper and a child wrapper"""
    guard = [s for s in loop_body if isinstance(s, ast.If) and unparse(s.test) == "utils.is_tuple_or_list_of_dataclasses(field_type)"]
    chain = [s for s in loop_body if isinstance(s, ast.If) and unparse(s.test) == "utils.is_subparser_field(field) or utils.is_choice(field)"]
    if len(chain) != 1 or loop_body[-1] is not chain[0]:
        raise Unrecognised("DataclassWrapper.__init__: the FieldWrapper / child-wrapper decision is no longer the last statement of the loop")
    guard_raises = False
    if guard:
        g = guard[0]
        if len(guard) != 1 or g.orelse or len(clean(g.body)) != 1 or not isinstance(clean(g.body)[0], ast.Raise) \
                or _raise_name(clean(g.body)[0]) != "NotImplementedError" or loop_body.index(g) > loop_body.index(chain[0]):
            raise Unrecognised("DataclassWrapper.__init__: container-of-dataclasses guard changed")
        guard_raises = True
    tests = {"utils.is_subparser_field(field) or utils.is_choice(field)": "DSubparserOrChoice",
             "dataclasses.is_dataclass(field_type) and field.default is not None": "DDataclassDefaultNotNone",
             "utils.contains_dataclass_type_arg(field_type)": "DContainsDataclass"}

    def kind(b):
        texts = [unparse(x) for x in b]
        child = "self._children.append(child_wrapper)" in texts
        fieldw = "self.fields.append(field_wrapper)" in texts
        opt = "child_wrapper.optional = True" in texts
        if fieldw and not child and texts[-1] == "self.fields.append(field_wrapper)" \
                and any(t.startswith("field_wrapper = self.field_wrapper_class(field, parent=self") for t in texts):
            return "WField"
        if child and not fieldw and not opt and "dataclass, name = (field_type, field.name)" in texts \
                and "child_wrapper = DataclassWrapper(dataclass, name, parent=self, _field=field, default=field_default)" in texts:
            return "WChild"
        if child and not fieldw and opt and "field_dataclass = utils.get_dataclass_type_arg(field_type)" in texts \
                and "child_wrapper = DataclassWrapper(field_dataclass, name=field.name, parent=self, _field=field, default=field_default)" in texts:
            return "WOptChild"
        raise Unrecognised("DataclassWrapper.__init__: arm body not recognised: " + " | ".join(texts)[:200])

    arms, tail = if_chain(chain[0])
    rows = []
    for test, b in arms:
        t = tests.get(unparse(test))
        if t is None:
            raise Unrecognised(f"DataclassWrapper.__init__: test {unparse(test)[:80]}")
        rows.append(f"({t}, {kind(b)})")
    if not tail:
        raise Unrecognised("DataclassWrapper.__init__: no else branch")
    return guard_raises, "[" + "; ".join(rows) + "]", kind(tail)


def _resolve_steps(gfa):
    fn = copy.deepcopy(find_def(gfa, "get_field_type_from_annotations"))
    if [a.arg for a in fn.args.args] != ["some_class", "field_name"]:
        raise Unrecognised("get_field_type_from_annotations signature")
    text = ctext(fn)
    lines = text.split("\n")
    body = "\n".join(ln[4:] for ln in lines[1:])
    if not body.startswith(GFT_HEAD + "\n"):
        import difflib
        d = "\n".join(list(difflib.unified_diff(GFT_HEAD.splitlines(), body.splitlines()[:len(GFT_HEAD.splitlines())],
                                                lineterm="", n=0))[:10])
        raise Unrecognised("get_field_type_from_annotations: namespaces / frame walk / get_type_hints part changed:\n" + d)
    nhead = len(ast.parse(GFT_HEAD).body)
    rest = clean(find_def(gfa, "get_field_type_from_annotations").body)[nhead:]
    if not rest or unparse(rest[-1]) != "return field_type":
        raise Unrecognised("get_field_type_from_annotations: no final `return field_type`")
    steps = []
    for st in rest[:-1]:
        t = ctext(st) if isinstance(st, ast.Try) else unparse(st)
        k = GFT_STEPS.get(t)
        if k is None:
            raise Unrecognised("get_field_type_from_annotations: unknown step: " + t[:160])
        steps.append(k)
    return steps


# ---- shape checks (nothing emitted beyond a marker) -----------------------------------------------

def _require_stmt(fn, text, what):
    for node in ast.walk(fn):
        if isinstance(node, ast.stmt) and unparse(node) == text:
            return
    raise Unrecognised(f"{what}: statement not found: {text[:120]}")


def _forward_refs(tree):
    d = module_assign(tree, "forward_refs_to_types")
    if not isinstance(d, ast.Dict):
        raise Unrecognised("forward_refs_to_types is not a dict literal")
    out = []
    for k, v in zip(d.keys, d.values):
        if k is None or not isinstance(v, ast.Name):
            raise Unrecognised("forward_refs_to_types: entry that is not 'name': builtin")
        out.append((const(k, str), v.id))
    return out


def _field_kinds(dw):
    fn = find_def(dw, "_get_dataclass_fields")
    kinds = None
    for node in ast.walk(fn):
        if isinstance(node, ast.comprehension):
            if len(node.ifs) != 1 or unparse(node.iter) != "dataclass_fields_map.values()":
                raise Unrecognised("_get_dataclass_fields: comprehension changed")
            t = node.ifs[0]
            if not (isinstance(t, ast.Compare) and len(t.ops) == 1 and isinstance(t.ops[0], ast.In)
                    and unparse(t.left) == "field._field_type" and isinstance(t.comparators[0], ast.Tuple)):
                raise Unrecognised("_get_dataclass_fields: filter changed")
            names = {"dataclasses._FIELD": "KField", "dataclasses._FIELD_INITVAR": "KInitVar",
                     "dataclasses._FIELD_CLASSVAR": "KClassVar"}
            kinds = []
            for e in t.comparators[0].elts:
                if unparse(e) not in names:
                    raise Unrecognised(f"_get_dataclass_fields: kind {unparse(e)}")
                kinds.append(names[unparse(e)])
    if kinds is None:
        raise Unrecognised("_get_dataclass_fields: no filter found")
    _require_stmt(fn, "dataclass_fields_map = getattr(dataclass, dataclasses._FIELDS)", "_get_dataclass_fields")
    return kinds


def emit(repo: str) -> str:
    gfa = parse(repo, GFA)
    utils = parse(repo, "simple_parsing/utils.py")
    dw = parse(repo, "simple_parsing/wrappers/dataclass_wrapper.py")
    fw = parse(repo, "simple_parsing/wrappers/field_wrapper.py")

    refs = _forward_refs(gfa)
    rw = _rewriter_facts(gfa)
    table, els, handles_ellipsis = _norm_facts(gfa)

    # utils: the predicates (decision chains / looked-for names are facts; small helpers are compared whole)
    mro_chain, mro_else = _mro_facts(utils)
    list_names, tuple_names, dict_names = (_in_mro_names(utils, n) for n in ("is_list", "is_tuple", "is_dict"))
    union_kinds = _is_union_kinds(utils)
    for name in ("get_type_arguments", "get_dataclass_type_arg", "is_tuple_or_list_of_dataclasses", "is_tuple_or_list",
                 "is_dataclass_type_or_typevar", "get_item_type", "is_subparser_field", "is_choice", "is_optional"):
        _exact(utils, ("utils", name), name)
    contains_chain, contains_else = _contains_chain(utils)
    bt = unparse(module_assign(utils, "builtin_types"))
    if bt != "[getattr(builtins, d) for d in dir(builtins) if isinstance(getattr(builtins, d), type)]":
        raise Unrecognised("utils.builtin_types changed")

    # get_field_type_from_annotations: where the two repairs are applied
    g = find_def(gfa, "get_field_type_from_annotations")
    _require_stmt(g, "if sys.version_info >= (3, 10) and isinstance(field_type, types.UnionType):\n"
                     f"    field_type = {R}(field_type)", "get_field_type_from_annotations")
    _require_stmt(g, "if isinstance(field_type, str) and '|' in field_type:\n"
                     "    field_type = _get_old_style_annotation(field_type)", "get_field_type_from_annotations")
    _require_stmt(g, "local_ns.update(forward_refs_to_types)", "get_field_type_from_annotations")
    _exact(gfa, ("gfa", "evaluate_string_annotation"), "evaluate_string_annotation")
    steps = _resolve_steps(gfa)

    # DataclassWrapper.__init__: which fields become arguments, when the type is re-resolved
    kinds = _field_kinds(dw)
    init = find_def(dw, "__init__", cls="DataclassWrapper")
    _require_stmt(init, "dataclass_fields: tuple[dataclasses.Field, ...] = _get_dataclass_fields(dataclass)",
                  "DataclassWrapper.__init__")
    loop = [n for n in ast.walk(init) if isinstance(n, ast.For) and unparse(n.iter) == "dataclass_fields"]
    if len(loop) != 1:
        raise Unrecognised("DataclassWrapper.__init__: loop over dataclass_fields")
    lb = clean(loop[0].body)
    if len(lb) < 2 or unparse(lb[0]) != "if not field.init or field.metadata.get('cmd', True) is False:\n    continue":
        raise Unrecognised("DataclassWrapper.__init__: skip condition changed")
    want = ("if isinstance(field.type, str):\n"
            "    from simple_parsing.annotation_utils.get_field_annotations import get_field_type_from_annotations\n"
            "    field_type = get_field_type_from_annotations(self.dataclass, field.name)\n"
            "    field.type = field_type\n"
            "else:\n    field_type = field.type")
    if unparse(ast.If(test=lb[1].test, body=clean(lb[1].body), orelse=clean(lb[1].orelse))
               if isinstance(lb[1], ast.If) else lb[1]) != want:
        raise Unrecognised("DataclassWrapper.__init__: re-resolution of str field types changed")
    guard_raises, wrap_chain, wrap_else = _wrap_chain(lb)
    # FieldWrapper.type: str -> get_field_type_from_annotations, InitVar -> .type (compared whole)
    _exact(fw, ("fw", "type"), "type", cls="FieldWrapper")
    initvar_unwrapped = True

    def ch(s):
        return cstr(s) + "%char"

    pairs = "; ".join(f"({cstr(k)}, {cstr(v)})" for k, v in refs)
    return (
        "From SPV Require Import Base.Str Model.Annot.\nOpen Scope string_scope.\n"
        f"Definition FORWARD_REFS_GEN : list (string * string) := [{pairs}].\n"
        f"Definition RW_BAR_GEN : ascii := {ch(rw['bar'])}.\n"
        f"Definition RW_LBR_GEN : ascii := {ch(rw['lbr'])}.\n"
        f"Definition RW_RBR_GEN : ascii := {ch(rw['rbr'])}.\n"
        f"Definition RW_COMMA_GEN : ascii := {ch(rw['comma'])}.\n"
        f"Definition RW_UNION_OPEN_GEN : string := {cstr(rw['union_open'])}.\n"
        f"Definition RW_JOIN_GEN : string := {cstr(rw['join'])}.\n"
        f"Definition RW_UNION_CLOSE_GEN : string := {cstr(rw['union_close'])}.\n"
        f"Definition RW_NOT_SUPPORTED_GEN : string := {cstr(rw['not_supported'])}.\n"
        f"Definition NORM_TABLE_GEN : list (ntest * nact) := {table}.\n"
        f"Definition NORM_ELSE_GEN : nact := {els}.\n"
        f"Definition NORM_HANDLES_ELLIPSIS_GEN : bool := {'true' if handles_ellipsis else 'false'}.\n"
        f"Definition FIELD_KINDS_GEN : list fkind := [{'; '.join(kinds)}].\n"
        f"Definition MRO_CHAIN_GEN : list (mtest * mans) := {mro_chain}.\n"
        f"Definition MRO_ELSE_GEN : mans := {mro_else}.\n"
        f"Definition IS_LIST_NAMES_GEN : list string := {cstrs(list_names)}.\n"
        f"Definition IS_TUPLE_NAMES_GEN : list string := {cstrs(tuple_names)}.\n"
        f"Definition IS_DICT_NAMES_GEN : list string := {cstrs(dict_names)}.\n"
        f"Definition IS_UNION_KINDS_GEN : list ukind := [{'; '.join(union_kinds)}].\n"
        "Definition IS_OPTIONAL_UNION_ARM_GEN : bool := true.\n"
        f"Definition CONTAINS_CHAIN_GEN : list (ctest * cans) := {contains_chain}.\n"
        f"Definition CONTAINS_ELSE_GEN : cans := {contains_else}.\n"
        f"Definition WRAP_GUARD_SEQ_RAISES_GEN : bool := {'true' if guard_raises else 'false'}.\n"
        f"Definition WRAP_CHAIN_GEN : list (dtest * wkind) := {wrap_chain}.\n"
        f"Definition WRAP_ELSE_GEN : wkind := {wrap_else}.\n"
        f"Definition RESOLVE_STEPS_GEN : list rstep := [{'; '.join(steps)}].\n"
        f"Definition INITVAR_UNWRAPPED_GEN : bool := {'true' if initvar_unwrapped else 'false'}.\n"
        "(* the model instantiated with the regenerated facts *)\n"
        "Definition old_style_fuel_gen := old_style_fuel RW_BAR_GEN RW_LBR_GEN RW_RBR_GEN RW_COMMA_GEN\n"
        "  (chars RW_UNION_OPEN_GEN) (chars RW_JOIN_GEN) (chars RW_UNION_CLOSE_GEN) RW_NOT_SUPPORTED_GEN.\n"
        "Definition old_style_gen := old_style RW_BAR_GEN RW_LBR_GEN RW_RBR_GEN RW_COMMA_GEN\n"
        "  (chars RW_UNION_OPEN_GEN) (chars RW_JOIN_GEN) (chars RW_UNION_CLOSE_GEN) RW_NOT_SUPPORTED_GEN.\n"
        "Definition is_list_gen := in_mro MRO_CHAIN_GEN MRO_ELSE_GEN IS_LIST_NAMES_GEN.\n"
        "Definition is_tuple_gen := in_mro MRO_CHAIN_GEN MRO_ELSE_GEN IS_TUPLE_NAMES_GEN.\n"
        "Definition is_dict_gen := in_mro MRO_CHAIN_GEN MRO_ELSE_GEN IS_DICT_NAMES_GEN.\n"
        "Definition is_union_gen := is_union_m IS_UNION_KINDS_GEN.\n"
        "Definition is_optional_gen (r : rty) : bool :=\n"
        "  IS_OPTIONAL_UNION_ARM_GEN && is_union_gen r && rty_in (RCls \"NoneType\") (get_args_m r).\n"
        "Definition contains_dc_gen := contains_dc is_list_gen is_tuple_gen IS_UNION_KINDS_GEN CONTAINS_CHAIN_GEN CONTAINS_ELSE_GEN.\n"
        "Definition wrapper_kind_gen := wrapper_kind is_list_gen is_tuple_gen IS_UNION_KINDS_GEN CONTAINS_CHAIN_GEN CONTAINS_ELSE_GEN\n"
        "  WRAP_GUARD_SEQ_RAISES_GEN WRAP_CHAIN_GEN WRAP_ELSE_GEN.\n"
        "Definition norm_gen := norm is_list_gen is_tuple_gen is_dict_gen NORM_TABLE_GEN NORM_ELSE_GEN.\n"
        "Definition resolve_gen := resolve is_list_gen is_tuple_gen is_dict_gen NORM_TABLE_GEN NORM_ELSE_GEN RESOLVE_STEPS_GEN\n"
        "  FORWARD_REFS_GEN.\n"
        "Definition wrapper_fields_gen := wrapper_fields FIELD_KINDS_GEN.\n"
        "Definition field_types_gen := field_types is_list_gen is_tuple_gen is_dict_gen NORM_TABLE_GEN NORM_ELSE_GEN\n"
        "  RESOLVE_STEPS_GEN FORWARD_REFS_GEN FIELD_KINDS_GEN INITVAR_UNWRAPPED_GEN.\n"
    )
