"""Facts for serialization (C05, C13): get_decoding_fn's dispatch order, decode_union's strategy
(try_functions = first success in declared order), the singledispatch registrations of encode(), DC_TYPE_KEY,
the suffix table of save()/read_file(), and that _decode_bool sends strings through utils.str2bool.

Output: coq/Gen/FactsSerial.v (imports Model.Serial for the table types, Gen.FactsBool for str2bool_gen, and
instantiates the model).  Fail closed: any monitored function whose shape is not the one modelled raises
Unrecognised."""
from __future__ import annotations

import ast

from .pyast import Unrecognised, clean, const, cstr, find_class, find_def, module_assign, parse, unparse

DEC = "simple_parsing/helpers/serialization/decoding.py"
ENC = "simple_parsing/helpers/serialization/encoding.py"
SER = "simple_parsing/helpers/serialization/serializable.py"


class _StripLogs(ast.NodeTransformer):
    """Remove logger.*(...) statements everywhere (behaviour-neutral); an emptied block becomes `pass`."""

    def _block(self, stmts):
        out = []
        for st in stmts:
            if (isinstance(st, ast.Expr) and isinstance(st.value, ast.Call) and isinstance(st.value.func, ast.Attribute)
                    and isinstance(st.value.func.value, ast.Name) and st.value.func.value.id == "logger"):
                continue
            out.append(self.visit(st))
        return out

    def generic_visit(self, node):
        for fld in ("body", "orelse", "finalbody"):
            v = getattr(node, fld, None)
            if isinstance(v, list) and v and isinstance(v[0], ast.stmt):
                nb = self._block(v)
                if not nb and fld == "body":
                    nb = [ast.Pass()]
                setattr(node, fld, nb)
        for h in getattr(node, "handlers", []) or []:
            self.generic_visit(h)
        return node


def _parse(repo, rel):
    return ast.fix_missing_locations(_StripLogs().visit(parse(repo, rel)))


def _body_text(fn):
    return [unparse(s) for s in clean(fn.body)]


def _expect_body(tree, name, expected, cls=None):
    got = _body_text(find_def(tree, name, cls))
    if got != expected:
        raise Unrecognised(f"{name}: body is not the modelled one: {' | '.join(got)[:400]}")


def _nested_def(fn, name):
    f = [n for n in clean(fn.body) if isinstance(n, ast.FunctionDef) and n.name == name]
    if len(f) != 1:
        raise Unrecognised(f"{fn.name}: inner def {name} not found")
    return f[0]


# ---- get_decoding_fn ------------------------------------------------------------------------------

DISPATCH_TESTS = {
    "t in _decoding_fns": ("DReg", ["return _decoding_fns[t]"]),
    "is_dataclass_type(t)": ("DDataclass", ["return partial(from_dict, t)"]),
    "t is Any": ("DAny", ["return no_op"]),
    "is_dict(t)": ("DDict", ["args = get_type_arguments(t)", "if len(args) != 2:\n    args = (Any, Any)",
                             "return decode_dict(*args)"]),
    "is_set(t)": ("DSet", ["args = get_type_arguments(t)", "if len(args) != 1:\n    args = (Any,)",
                           "return decode_set(args[0])"]),
    "is_tuple(t)": ("DTuple", ["args = get_type_arguments(t)", "return decode_tuple(*args)"]),
    "is_list(t)": ("DList", ["args = get_type_arguments(t)", "if not args:\n    args = (Any,)", "assert len(args) == 1",
                             "return decode_list(args[0])"]),
    "is_union(t)": ("DUnion", ["args = get_type_arguments(t)", "return decode_union(*args)"]),
    "is_enum(t)": ("DEnum", ["return decode_enum(t)"]),
    "is_typevar(t)": ("DTypeVar", ["bound = get_bound(t)", "if bound is not None:\n    return get_decoding_fn(bound)"]),
    "is_literal(t)": ("DLiteral", ["possible_vals = get_type_arguments(t)", "return decode_literal(*possible_vals)"]),
}


def _dispatch_order(tree):
    fn = find_def(tree, "get_decoding_fn")
    body = clean(fn.body)
    if not body or unparse(body[0]) != "from .serializable import from_dict":
        raise Unrecognised("get_decoding_fn: first statement")
    pre = body[1]
    if not (isinstance(pre, ast.If) and unparse(pre.test) == "isinstance(type_annotation, str)"):
        raise Unrecognised("get_decoding_fn: string-annotation preamble")
    # the preamble must leave `t = type_annotation` for a real type
    cur = pre
    while len(cur.orelse) == 1 and isinstance(cur.orelse[0], ast.If):
        cur = cur.orelse[0]
    if [unparse(s) for s in clean(cur.orelse)] != ["t = type_annotation"]:
        raise Unrecognised("get_decoding_fn: else branch of the preamble")
    order = []
    rest = body[2:]
    i = 0
    while i < len(rest) and isinstance(rest[i], ast.If):
        s = rest[i]
        test = unparse(s.test)
        if test not in DISPATCH_TESTS:
            raise Unrecognised(f"get_decoding_fn: unknown test `{test}`")
        tag, want = DISPATCH_TESTS[test]
        got = [unparse(x) for x in clean(s.body)]
        if got != want or s.orelse:
            raise Unrecognised(f"get_decoding_fn: arm `{test}` does {got}")
        if tag in order:
            raise Unrecognised(f"get_decoding_fn: test `{test}` twice")
        order.append(tag)
        i += 1
    tail = [unparse(s) for s in rest[i:]]
    if tail != ["return try_constructor(t)"]:
        raise Unrecognised(f"get_decoding_fn: fall-back is {tail}")
    return order


# ---- the decode_* combinators (exact shapes: these are what Model/Serial.v transcribes) ---------------

def _check_combinators(tree):
    tf = find_def(tree, "try_functions")
    inner = _nested_def(tf, "_try_functions")
    want = ["e: Exception | None = None",
            "for func in funcs:\n    try:\n        return func(val)\n    except Exception as ex:\n        e = ex",
            "return val"]
    got = [unparse(s) for s in clean(inner.body)]
    if got != want:
        raise Unrecognised(f"try_functions is not first-success-else-unchanged: {got}")
    if [unparse(s) for s in clean(tf.body) if not isinstance(s, ast.FunctionDef)] != ["return _try_functions"]:
        raise Unrecognised("try_functions: outer body")

    _expect_body(tree, "decode_union", [
        "types_list = list(types)",
        "optional = type(None) in types_list",
        "while type(None) in types_list:\n    types_list.remove(type(None))",
        "decoding_fns: list[Callable[[Any], T]] = [decode_optional(t) if optional else get_decoding_fn(t) for t in types_list]",
        "return try_functions(*decoding_fns)",
    ])
    do = find_def(tree, "decode_optional")
    if _body_text(_nested_def(do, "_decode_optional")) != ["return val if val is None else decode(val)"]:
        raise Unrecognised("decode_optional")
    dl = find_def(tree, "decode_list")
    if _body_text(_nested_def(dl, "_decode_list")) != ["return [decode_item(v) for v in val]"]:
        raise Unrecognised("decode_list")
    dt = find_def(tree, "decode_tuple")
    if _body_text(_nested_def(dt, "_decode_tuple")) != [
            "if has_ellipsis:\n    return tuple((decoding_fn(v) for v in val))\nelse:\n    return tuple((decoding_fns[i](v) for i, v in enumerate(val)))"]:
        raise Unrecognised("decode_tuple")
    ds = find_def(tree, "decode_set")
    if _body_text(_nested_def(ds, "_decode_set")) != ["return set(parse_list_fn(val))"]:
        raise Unrecognised("decode_set")
    dd = find_def(tree, "decode_dict")
    if _body_text(_nested_def(dd, "_decode_dict")) != [
            "result: dict[K, V] = {}",
            "if isinstance(val, list):\n    result = OrderedDict()\n    items = val\nelif isinstance(val, OrderedDict):\n    result = OrderedDict()\n    items = val.items()\nelse:\n    items = val.items()",
            "for k, v in items:\n    k_ = decode_k(k)\n    v_ = decode_v(v)\n    result[k_] = v_",
            "return result"]:
        raise Unrecognised("decode_dict")
    de = find_def(tree, "decode_enum")
    if _body_text(_nested_def(de, "_decode_enum")) != ["return item_type[val]"]:
        raise Unrecognised("decode_enum")
    dli = find_def(tree, "decode_literal")
    if _body_text(_nested_def(dli, "_decode_literal")) != [
            "if val not in possible_vals:\n    raise TypeError(f'Expected one of {possible_vals} for Literal, got {val}')",
            "return val"]:
        raise Unrecognised("decode_literal")

    _expect_body(tree, "_decode_bool", [
        "if isinstance(v, str):\n    bool_v = str2bool(v)\nelse:\n    bool_v = bool(v)\n    if isinstance(v, (int, float)) and v not in (0, 1, 0.0, 1.0):\n        warnings.warn(UnsafeCastingWarning(raw_value=v, decoded_value=bool_v))",
        "return bool_v"])
    # _decode_int: does the lossy-cast test evaluate float(v) when v already is an int?  (float(10**400) raises OverflowError)
    got = _body_text(find_def(tree, "_decode_int"))
    shape = ("int_v = int(v)",
             "if isinstance(v, bool):\n    warnings.warn(UnsafeCastingWarning(raw_value=v, decoded_value=int_v))\n"
             "elif %s:\n    warnings.warn(UnsafeCastingWarning(raw_value=v, decoded_value=int_v))",
             "return int_v")
    guards = {"int_v != float(v)": True, "not isinstance(v, int) and int_v != float(v)": False}
    cmp_ints = None
    for g, val in guards.items():
        if got == [shape[0], shape[1] % g, shape[2]]:
            cmp_ints = val
    if cmp_ints is None:
        raise Unrecognised(f"_decode_int: body is not one of the modelled ones: {' | '.join(got)[:400]}")
    _expect_body(tree, "_decode_float", [
        "float_v = float(v)",
        "if isinstance(v, bool):\n    warnings.warn(UnsafeCastingWarning(raw_value=v, decoded_value=float_v))",
        "return float_v"])
    # str2bool must be utils.str2bool (translated by translate/Bool.py)
    imp = [n for n in tree.body if isinstance(n, ast.ImportFrom) and n.module == "simple_parsing.utils"]
    if not any(a.name == "str2bool" and a.asname is None for n in imp for a in n.names):
        raise Unrecognised("decoding.py does not import str2bool from simple_parsing.utils")
    # the registry starts with str and bytes; Path is registered with its constructor
    reg = module_assign(tree, "_decoding_fns")
    if unparse(reg) != "{t: t for t in [str, bytes]}":
        raise Unrecognised(f"_decoding_fns initial value: {unparse(reg)}")
    regs = [unparse(n) for n in tree.body if isinstance(n, ast.Expr) and isinstance(n.value, ast.Call)
            and unparse(n.value.func) == "register_decoding_fn"]
    if regs != ["register_decoding_fn(Path, Path)"]:
        raise Unrecognised(f"module-level register_decoding_fn calls: {regs}")
    decos = {}
    for n in tree.body:
        if isinstance(n, ast.FunctionDef):
            for d in n.decorator_list:
                if isinstance(d, ast.Call) and unparse(d.func) == "decoding_fn_for_type":
                    decos[unparse(d.args[0])] = n.name
    if decos != {"int": "_decode_int", "float": "_decode_float", "bool": "_decode_bool"}:
        raise Unrecognised(f"decoding_fn_for_type registrations: {decos}")
    df = find_def(tree, "decode_field")
    texts = _body_text(df)
    for want in ("custom_decoding_fn = field.metadata.get('decoding_fn')",
                 "if custom_decoding_fn is not None:\n    return custom_decoding_fn(raw_value)",
                 "decoding_function = get_decoding_fn(field_type)", "return decoded_value"):
        if want not in texts:
            raise Unrecognised(f"decode_field: statement `{want}` not found")
    return cmp_ints


# ---- encode ---------------------------------------------------------------------------------------

ENCODERS = {
    "encode_list": ("EList", ["return list(map(encode, obj))"]),
    "encode_path": ("EPath", ["return obj.__fspath__()"]),
    "encode_namespace": ("ENamespace", ["return encode(vars(obj))"]),
    "encode_enum": ("EEnum", ["return obj.name"]),
    "encode_dict": ("EDict", [
        "constructor = type(obj)",
        "result = constructor()",
        "for k, v in obj.items():\n    k_ = encode(k)\n    v_ = encode(v)\n    if isinstance(k_, Hashable):\n        result[k_] = v_\n    else:\n        if isinstance(result, dict):\n            result = list(result.items())\n        result.append((k_, v_))",
        "return result",
        "return type(obj)(((encode(k), encode(v)) for k, v in obj.items()))"]),
}
PYTYPES = {"list", "tuple", "set", "Mapping", "PathLike", "Namespace", "Enum"}


def _encode_table(tree):
    rows = []
    default = None
    for n in tree.body:
        if not isinstance(n, ast.FunctionDef):
            continue
        decs = [unparse(d) for d in n.decorator_list]
        if decs == ["singledispatch"]:
            if n.name != "encode":
                raise Unrecognised(f"singledispatch function {n.name}")
            default = n
            continue
        regs = []
        for d in n.decorator_list:
            if isinstance(d, ast.Call) and unparse(d.func) == "encode.register" and len(d.args) == 1 and isinstance(d.args[0], ast.Name):
                regs.append(d.args[0].id)
            else:
                raise Unrecognised(f"decorator {unparse(d)} on {n.name}")
        if not regs:
            continue
        if n.name not in ENCODERS:
            raise Unrecognised(f"unknown encoder {n.name}")
        tag, want = ENCODERS[n.name]
        if _body_text(n) != want:
            raise Unrecognised(f"{n.name}: body is not the modelled one: {_body_text(n)}")
        for r in reversed(regs):   # decorators apply bottom-up; order is irrelevant for singledispatch
            if r not in PYTYPES:
                raise Unrecognised(f"encode.register({r})")
            rows.append((r, tag))
    if default is None:
        raise Unrecognised("singledispatch encode not found")
    want_default = ["try:\n    if is_dataclass(obj):\n        d: dict[str, Any] = dict()\n        for field in fields(obj):\n            value = getattr(obj, field.name)\n            try:\n                d[field.name] = encode(value)\n            except TypeError as e:\n                raise e\n        return d\n    else:\n        return copy.deepcopy(obj)\nexcept Exception as e:\n    raise e"]
    if _body_text(default) != want_default:
        raise Unrecognised("encode (default): body is not the modelled one")
    names = [r for r, _ in rows]
    if len(set(names)) != len(names):
        raise Unrecognised("a type is registered twice with encode")
    return rows


# ---- serializable.py ------------------------------------------------------------------------------

CODECS = {"JSONExtension": "CJson", "PickleExtension": "CPickle", "YamlExtension": "CYaml",
          "NumpyExtension": "COther", "TorchExtension": "COther", "TOMLExtension": "COther"}


def _suffix_table(tree):
    node = module_assign(tree, "extensions")
    if not isinstance(node, ast.Dict):
        raise Unrecognised("extensions is not a dict literal")
    rows = []
    for k, v in zip(node.keys, node.values):
        sfx = const(k, str)
        if not (isinstance(v, ast.Call) and isinstance(v.func, ast.Name) and not v.args and not v.keywords):
            raise Unrecognised(f"extensions[{sfx!r}] = {unparse(v)}")
        if v.func.id not in CODECS:
            raise Unrecognised(f"unknown format class {v.func.id}")
        rows.append((sfx, CODECS[v.func.id]))
    j = find_class(tree, "JSONExtension")
    if [unparse(s) for s in clean(j.body)] != ["load = staticmethod(json.load)", "dump = staticmethod(json.dump)"]:
        raise Unrecognised("JSONExtension")
    p = find_class(tree, "PickleExtension")
    if [unparse(s) for s in clean(p.body)] != [
            "binary: ClassVar[bool] = True",
            "load: ClassVar[Callable[[IO], Any]] = staticmethod(pickle.load)",
            "dump: ClassVar[Callable[[Any, IO[bytes]], None]] = staticmethod(pickle.dump)"]:
        raise Unrecognised("PickleExtension")
    if _body_text(find_def(tree, "load", "YamlExtension")) != ["import yaml", "return yaml.safe_load(io)"]:
        raise Unrecognised("YamlExtension.load")
    if _body_text(find_def(tree, "dump", "YamlExtension")) != ["import yaml", "return yaml.dump(obj, io, **kwargs)"]:
        raise Unrecognised("YamlExtension.dump")
    _expect_body(tree, "get_extension", [
        "path = Path(path)",
        "if path.suffix in extensions:\n    return extensions[path.suffix]\nelse:\n    raise RuntimeError(f'Cannot load to/save from a {path.suffix} file because this extension is not registered in the extensions dictionary.')"])
    _expect_body(tree, "read_file", [
        "format = get_extension(path)",
        "with open(path, mode='rb' if format.binary else 'r') as f:\n    return format.load(f)"])
    _expect_body(tree, "save", [
        "if not isinstance(obj, dict):\n    obj = to_dict(obj, save_dc_types=save_dc_types)",
        "if format is None:\n    format = get_extension(path)",
        "with open(path, mode='wb' if format.binary else 'w') as f:\n    return format.dump(obj, f, **kwargs)"])
    return rows


def _check_to_from_dict(tree):
    td = find_def(tree, "to_dict")
    loops = [s for s in clean(td.body) if isinstance(s, ast.For)]
    if len(loops) != 1 or unparse(loops[0].iter) != "fields(dc)":
        raise Unrecognised("to_dict: field loop")
    got = [unparse(s) for s in clean(loops[0].body)]
    want = [
        "name = f.name",
        "value = getattr(dc, name)",
        "include_in_dict = f.metadata.get('to_dict', True)",
        "if not include_in_dict:\n    continue",
        "custom_encoding_fn = f.metadata.get('encoding_fn')",
        "if custom_encoding_fn:\n    d[name] = custom_encoding_fn(value)\n    continue",
        "encoding_fn = encode",
        "if is_dataclass(value) and recurse:\n    encoded = to_dict(value, dict_factory=dict_factory, recurse=recurse, save_dc_types=save_dc_types)\nelse:\n    try:\n        encoded = encoding_fn(value)\n    except Exception as e:\n        encoded = value",
        "d[name] = encoded",
    ]
    if got != want:
        raise Unrecognised(f"to_dict: field loop body is not the modelled one: {got}")
    fd = find_def(tree, "from_dict")
    texts = _body_text(fd)
    for w in ("if d is None:\n    return None", "obj_dict: dict[str, Any] = d.copy()",
              "init_args.update(extra_args)",
              "for name, value in non_init_args.items():\n    setattr(instance, name, value)", "return instance"):
        if w not in texts:
            raise Unrecognised(f"from_dict: statement `{w}` not found")
    loops = [s for s in clean(fd.body) if isinstance(s, ast.For) and unparse(s.iter) == "fields(cls) if is_dataclass(cls) else []"]
    if len(loops) != 1:
        raise Unrecognised("from_dict: field loop")
    got = [unparse(s) for s in clean(loops[0].body)]
    want = [
        "name = field.name",
        "if name not in obj_dict:\n    if field.metadata.get('to_dict', True) and field.default is MISSING and (field.default_factory is MISSING):\n        pass\n    continue",
        "raw_value = obj_dict.pop(name)",
        "field_value = decode_field(field, raw_value, containing_dataclass=cls, drop_extra_fields=drop_extra_fields)",
        "if field.init:\n    init_args[name] = field_value\nelse:\n    non_init_args[name] = field_value",
    ]
    norm = [unparse(s) for s in clean(loops[0].body)]
    if norm != want:
        raise Unrecognised(f"from_dict: field loop body is not the modelled one: {norm}")
    init = find_def(tree, "__init_subclass__", "SerializableMixin")
    t2 = _body_text(init)
    for w in ("encode.register(cls, cls.to_dict)", "register_decoding_fn(cls, cls.from_dict)"):
        if w not in t2:
            raise Unrecognised(f"SerializableMixin.__init_subclass__: `{w}` not found")


# ---- tie audit: sites that used to be tied by the sampled correspondence only ----------------------------

UTILS = "simple_parsing/utils.py"
FIELDS = "simple_parsing/helpers/fields.py"

TEST_PREDICATE = {"is_dataclass_type(t)": "is_dataclass_type", "is_dict(t)": "is_dict", "is_set(t)": "is_set",
                  "is_tuple(t)": "is_tuple", "is_list(t)": "is_list", "is_union(t)": "is_union", "is_enum(t)": "is_enum",
                  "is_typevar(t)": "is_typevar", "is_literal(t)": "is_literal"}


def _annot_predicates(dec_tree, utils_tree, order):
    """[(tag, Gallina apred)] in dispatch order: each utils predicate get_decoding_fn calls, by its body"""
    _expect_body(utils_tree, "_mro", [
        "if t is None:\n    return []",
        "if hasattr(t, '__mro__'):\n    return t.__mro__\nelif get_origin(t) is type:\n    return []\nelif hasattr(t, 'mro') and callable(t.mro):\n    return t.mro()",
        "return []"])
    _expect_body(utils_tree, "get_type_arguments", ["return get_args(container_type)"])

    def pred(fn):
        body = _body_text(find_def(utils_tree, fn))
        if len(body) == 1 and body[0].startswith("return ") and body[0].endswith(" in _mro(t)"):
            return f"PMroHasAny [{cstr(body[0][len('return '):-len(' in _mro(t)')])}]"
        if body == ["mro = _mro(t)", "return dict in mro or Mapping in mro or c_abc.Mapping in mro"]:
            return 'PMroHasAny ["dict"; "Mapping"; "c_abc.Mapping"]'
        if body == ["return get_origin(t) in (Literal, LiteralAlt)"]:
            return 'POriginIn ["Literal"; "LiteralAlt"]'
        if body == ["if sys.version_info[:2] >= (3, 10) and isinstance(t, types.UnionType):\n    return True",
                    "return getattr(t, '__origin__', '') == Union"]:
            return 'POriginIs "Union"'
        if body == ["if inspect.isclass(t):\n    return issubclass(t, enum.Enum)", "return Enum in _mro(t)"]:
            return "PEnumSubclass"
        if body == ["return inspect.isclass(obj) and dataclasses.is_dataclass(obj)"]:
            return "PIsDataclassClass"
        if body == ["return type(t) is TypeVar"]:
            return "PIsTypeVar"
        raise Unrecognised(f"utils.{fn}: body is not a modelled predicate: {' | '.join(body)[:300]}")

    tag_test = {v[0]: k for k, v in DISPATCH_TESTS.items()}
    rows = []
    for tag in order:
        test = tag_test[tag]
        if test == "t in _decoding_fns":
            q = "PInRegistry"
        elif test == "t is Any":
            q = "PIsAny"
        else:
            q = pred(TEST_PREDICATE[test])
        rows.append(f"({tag}, {q})")
    # the names must be utils' own (decoding.py imports them from simple_parsing.utils)
    imp = [a.name for n in dec_tree.body if isinstance(n, ast.ImportFrom) and n.module == "simple_parsing.utils" for a in n.names]
    for fn in TEST_PREDICATE.values():
        if fn not in imp:
            raise Unrecognised(f"decoding.py does not import {fn} from simple_parsing.utils")
    return rows


FROM_DICT = {
    "none": "if d is None:\n    return None",
    "copy": "obj_dict: dict[str, Any] = d.copy()",
    "init": "init_args: dict[str, Any] = {}",
    "noninit": "non_init_args: dict[str, Any] = {}",
    "type_copy": "if DC_TYPE_KEY in obj_dict:\n    target = obj_dict.pop(DC_TYPE_KEY)\n    live_dc_type = _locate(target)\n    return from_dict(live_dc_type, obj_dict, drop_extra_fields=drop_extra_fields)",
    "type_arg": "if DC_TYPE_KEY in d:\n    target = d.pop(DC_TYPE_KEY)\n    live_dc_type = _locate(target)\n    return from_dict(live_dc_type, d, drop_extra_fields=drop_extra_fields)",
    "drop": "if drop_extra_fields is None:\n    drop_extra_fields = not getattr(cls, 'decode_into_subclasses', False)\n    if cls in {Serializable, FrozenSerializable, SerializableMixin}:\n        drop_extra_fields = False",
    "extra0": "extra_args = obj_dict",
    "extra": "if extra_args:\n    if drop_extra_fields:\n        extra_args.clear()\n    else:\n        derived_classes: list[type[DataclassT]] = []\n        for subclass in all_subclasses(cls):\n            if subclass is not cls:\n                derived_classes.append(subclass)\n        req_init_field_names = set(chain(extra_args, init_args, non_init_args))\n        derived_classes.sort(key=lambda dc: len(fields(dc)))\n        for child_class in derived_classes:\n            child_init_field_names = {f.name for f in fields(child_class)}\n            if child_init_field_names >= req_init_field_names:\n                return from_dict(child_class, d, drop_extra_fields=False)",
    "update": "init_args.update(extra_args)",
    "setattr": "for name, value in non_init_args.items():\n    setattr(instance, name, value)",
    "ret": "return instance",
}


def _from_dict_facts(tree):
    """(from_dict(None) is None, where DC_TYPE_KEY is popped from, class raised when the constructor call fails)"""
    fd = find_def(tree, "from_dict")
    kinds = []
    ctor_error = None
    inv = {v: k for k, v in FROM_DICT.items()}
    for st in clean(fd.body):
        txt = unparse(st)
        if txt in inv:
            kinds.append(inv[txt])
        elif isinstance(st, ast.For) and unparse(st.iter) == "fields(cls) if is_dataclass(cls) else []":
            kinds.append("loop")          # its body is checked by _check_to_from_dict
        elif isinstance(st, ast.Try):
            if ([unparse(x) for x in clean(st.body)] != ["instance = cls(**init_args)"] or len(st.handlers) != 1
                    or st.orelse or st.finalbody or unparse(st.handlers[0].type) != "TypeError"):
                raise Unrecognised("from_dict: the constructor call")
            hb = clean(st.handlers[0].body)
            if len(hb) != 1 or not isinstance(hb[0], ast.Raise) or not isinstance(hb[0].exc, ast.Call) \
                    or not isinstance(hb[0].exc.func, ast.Name):
                raise Unrecognised("from_dict: what the constructor failure is turned into")
            ctor_error = hb[0].exc.func.id
            kinds.append("ctor")
        else:
            raise Unrecognised(f"from_dict: statement not modelled: {txt[:200]}")
    tail = ["drop", "loop", "extra0", "extra", "update", "ctor", "setattr", "ret"]
    heads = {("none", "copy", "init", "noninit", "type_copy"): (True, "PopCopy"),
             ("copy", "init", "noninit", "type_copy"): (False, "PopCopy"),
             ("none", "type_arg", "copy", "init", "noninit"): (True, "PopArgument"),
             ("none", "init", "noninit", "type_arg", "copy"): (True, "PopArgument")}
    if kinds[-len(tail):] != tail or tuple(kinds[:-len(tail)]) not in heads:
        raise Unrecognised(f"from_dict: statement order {kinds}")
    none_ok, site = heads[tuple(kinds[:-len(tail)])]
    return none_ok, site, ctor_error


def _hooks_wired(fields_tree):
    """metadata keys that field() writes among the three that to_dict / decode_field read"""
    fn = find_def(fields_tree, "field")
    texts = []
    for st in ast.walk(fn):
        if isinstance(st, (ast.Expr, ast.If)):
            texts.append(unparse(st))
    wired = []
    if "_metadata.update(dict(to_dict=to_dict))" in texts:
        wired.append("to_dict")
    for k in ("encoding_fn", "decoding_fn"):
        if f"if {k} is not None:\n    _metadata.update(dict({k}={k}))" in texts:
            wired.append(k)
    from .pyast import kw_defaults
    d = kw_defaults(fn)
    for k, want in (("to_dict", "True"), ("encoding_fn", "None"), ("decoding_fn", "None")):
        if k not in d or unparse(d[k]) != want:
            raise Unrecognised(f"field(): default of {k}")
    # _metadata must end up as the metadata of the dataclasses field
    if not any("metadata=_metadata" in unparse(n) for n in ast.walk(fn) if isinstance(n, ast.Call)):
        raise Unrecognised("field(): _metadata is not passed on as metadata=")
    return wired


def _api_table(tree):
    """dumps_json/loads_json and dumps_yaml/loads_yaml (functions and SerializableMixin methods): which codec"""
    from .pyast import kw_defaults
    _expect_body(tree, "dumps", ["if not isinstance(dc, dict):\n    dc = to_dict(dc)", "return dump_fn(dc)"])
    _expect_body(tree, "loads", ["d = load_fn(s)", "return from_dict(cls, d, drop_extra_fields=drop_extra_fields)"])
    _expect_body(tree, "dumps_json", ["kwargs.setdefault('cls', SimpleJsonEncoder)", "return dumps(dc, dump_fn=partial(dump_fn, **kwargs))"])
    _expect_body(tree, "loads_json", ["return loads(cls, s, drop_extra_fields=drop_extra_fields, load_fn=partial(load_fn, **kwargs))"])
    _expect_body(tree, "dumps_yaml", ["import yaml", "if dump_fn is None:\n    dump_fn = yaml.dump", "return dumps(dc, dump_fn=partial(dump_fn, **kwargs))"])
    _expect_body(tree, "loads_yaml", ["import yaml", "load_fn = load_fn or yaml.safe_load",
                                      "return loads(cls, s, drop_extra_fields=drop_extra_fields, load_fn=partial(load_fn, **kwargs))"])
    _expect_body(tree, "load", [
        "if isinstance(path, str):\n    path = Path(path)",
        "if load_fn is None and isinstance(path, Path):\n    d = read_file(path)\nelif load_fn:\n    with path.open() if isinstance(path, Path) else path as f:\n        d = load_fn(f)\nelse:\n    raise ValueError(\"A loading function must be passed, since we got an io stream, and the extension can't be retrieved.\")",
        "if drop_extra_fields is None and getattr(cls, 'decode_into_subclasses', None) is not None:\n    drop_extra_fields = not getattr(cls, 'decode_into_subclasses')",
        "return from_dict(cls, d, drop_extra_fields=drop_extra_fields)"])
    for fn, k, want in (("dumps", "dump_fn", "json.dumps"), ("loads", "load_fn", "json.loads"), ("dumps_json", "dump_fn", "json.dumps"),
                        ("loads_json", "load_fn", "json.loads"), ("dumps_yaml", "dump_fn", "None"), ("loads_yaml", "load_fn", "None"),
                        ("load", "load_fn", "None"), ("load", "drop_extra_fields", "None")):
        d = kw_defaults(find_def(tree, fn))
        if k not in d or unparse(d[k]) != want:
            raise Unrecognised(f"{fn}: default of {k}")
    mixin = {"to_dict": ["return to_dict(self, dict_factory=dict_factory, recurse=recurse, save_dc_types=save_dc_types)"],
             "from_dict": ["return from_dict(cls, obj, drop_extra_fields=drop_extra_fields)"],
             "dumps_json": ["return dumps_json(self, dump_fn=dump_fn, **kwargs)"],
             "dumps_yaml": ["return dumps_yaml(self, dump_fn=dump_fn, **kwargs)"],
             "loads_json": ["return loads_json(cls, s, drop_extra_fields=drop_extra_fields, load_fn=partial(load_fn, **kwargs))"],
             "loads_yaml": ["return loads_yaml(cls, s, drop_extra_fields=drop_extra_fields, load_fn=load_fn, **kwargs)"],
             "save": ["save(self, path=path, format=format)"],
             "load": ["return load(cls, path=path, drop_extra_fields=drop_extra_fields, load_fn=load_fn, **kwargs)"]}
    for m, want in mixin.items():
        _expect_body(tree, m, want, "SerializableMixin")
    for m, k, want in (("dumps_json", "dump_fn", "json.dumps"), ("loads_json", "load_fn", "json.loads"),
                       ("dumps_yaml", "dump_fn", "None"), ("loads_yaml", "load_fn", "None"), ("to_dict", "save_dc_types", "False"),
                       ("to_dict", "recurse", "True"), ("to_dict", "dict_factory", "dict")):
        d = kw_defaults(find_def(tree, m, "SerializableMixin"))
        if k not in d or unparse(d[k]) != want:
            raise Unrecognised(f"SerializableMixin.{m}: default of {k}")
    return [("json", "CJson"), ("yaml", "CYaml")]


def _decode_field_hook_first(dec_tree):
    got = _body_text(find_def(dec_tree, "decode_field"))
    want_prefix = ["name = field.name", "field_type = field.type",
                   "custom_decoding_fn = field.metadata.get('decoding_fn')",
                   "if custom_decoding_fn is not None:\n    return custom_decoding_fn(raw_value)",
                   "if isinstance(field_type, str) and containing_dataclass:\n    field_type = evaluate_string_annotation(field_type, containing_dataclass)",
                   "decoding_function = get_decoding_fn(field_type)"]
    call = "with warnings.catch_warnings(record=True, **_kwargs) as warning_messages:\n    if is_dataclass_type(field_type) and drop_extra_fields is not None:\n        decoded_value = decoding_function(raw_value, drop_extra_fields=drop_extra_fields)\n    else:\n        decoded_value = decoding_function(raw_value)"
    if got[:len(want_prefix)] != want_prefix or call not in got or got[-1] != "return decoded_value":
        raise Unrecognised(f"decode_field: body is not the modelled one: {' | '.join(got)[:400]}")
    return True


def _type_value_sep(tree):
    td = find_def(tree, "to_dict")
    pre = [unparse(x) for x in clean(td.body) if not isinstance(x, ast.For)]
    want = ["if not is_dataclass(dc):\n    raise ValueError('to_dict should only be called on a dataclass instance.')",
            "d: dict[str, Any] = dict_factory()", None, "return d"]
    if len(pre) != 4 or pre[0] != want[0] or pre[1] != want[1] or pre[3] != want[3]:
        raise Unrecognised("to_dict: statements around the field loop")
    blk = [x for x in clean(td.body) if isinstance(x, ast.If) and unparse(x.test) == "save_dc_types"]
    if len(blk) != 1:
        raise Unrecognised("to_dict: save_dc_types block")
    inner = [unparse(x) for x in clean(blk[0].body)]
    if inner[:2] != ["class_name = dc.__class__.__qualname__", "module = type(dc).__module__"] or len(inner) != 3:
        raise Unrecognised("to_dict: save_dc_types block body")
    last = clean(blk[0].body)[2]
    if not (isinstance(last, ast.If) and unparse(last.test) == "'<locals>' in class_name" and len(clean(last.orelse)) == 1):
        raise Unrecognised("to_dict: <locals> guard")
    asg = clean(last.orelse)[0]
    if not (isinstance(asg, ast.Assign) and unparse(asg.targets[0]) == "d[DC_TYPE_KEY]" and isinstance(asg.value, ast.BinOp)
            and isinstance(asg.value.left, ast.BinOp) and unparse(asg.value.left.left) == "module"
            and unparse(asg.value.right) == "class_name" and isinstance(asg.value.left.right, ast.Constant)):
        raise Unrecognised(f"to_dict: value stored under DC_TYPE_KEY: {unparse(asg)}")
    return const(asg.value.left.right, str)


def emit(repo: str) -> str:
    dec = _parse(repo, DEC)
    enc = _parse(repo, ENC)
    ser = _parse(repo, SER)
    order = _dispatch_order(dec)
    cmp_ints = _check_combinators(dec)
    table = _encode_table(enc)
    key = const(module_assign(ser, "DC_TYPE_KEY"), str)
    sfx = _suffix_table(ser)
    _check_to_from_dict(ser)
    utils = _parse(repo, UTILS)
    fields_t = _parse(repo, FIELDS)
    preds = _annot_predicates(dec, utils, order)
    none_ok, pop_site, ctor_error = _from_dict_facts(ser)
    wired = _hooks_wired(fields_t)
    api = _api_table(ser)
    hook_first = _decode_field_hook_first(dec)
    sep = _type_value_sep(ser)
    return (
        "From SPV Require Import Base.Str Model.Serial Gen.FactsBool.\nOpen Scope string_scope.\n"
        f"Definition DISPATCH_ORDER : list dtag := [{'; '.join(order)}].\n"
        "Definition UNION_STRATEGY : ustrat := FirstSuccess.\n"
        f"Definition ENCODE_TABLE : list (string * encoder) := [{'; '.join(f'({cstr(a)}, {b})' for a, b in table)}].\n"
        f"Definition DC_TYPE_KEY : string := {cstr(key)}.\n"
        f"Definition SUFFIX_TABLE : list (string * codec) := [{'; '.join(f'({cstr(a)}, {b})' for a, b in sfx)}].\n"
        "(* _decode_bool sends a str through utils.str2bool (translated by translate/Bool.py) *)\n"
        "Definition decode_bool_str : string -> option bool := str2bool_gen.\n"
        "(* the model instantiated with the regenerated facts; the set-iteration oracle and the user's hooks stay arguments *)\n"
        "(* utils.is_dict / is_set / ... as get_decoding_fn calls them, by their bodies *)\n"
        f"Definition ANNOT_PREDICATES : list (dtag * apred) := [{'; '.join(preds)}].\n"
        "(* from_dict: None passes through; where DC_TYPE_KEY is popped from; keys that are no field; constructor failure *)\n"
        f"Definition FROM_DICT_NONE : bool := {'true' if none_ok else 'false'}.\n"
        f"Definition FROM_DICT_POP : pop_site := {pop_site}.\n"
        "Definition FROM_DICT_EXTRAS : extra_policy := ExtraDropped.\n"
        f"Definition FROM_DICT_CTOR_ERROR : string := {cstr(ctor_error)}.\n"
        "(* decode_field returns metadata['decoding_fn'](raw) before looking at the annotation *)\n"
        f"Definition DECODE_FIELD_HOOK_FIRST : bool := {'true' if hook_first else 'false'}.\n"
        "(* metadata keys written by helpers.fields.field among those read by to_dict / decode_field *)\n"
        f"Definition HOOKS_WIRED : list string := [{'; '.join(cstr(k) for k in wired)}].\n"
        "(* dumps_json/loads_json, dumps_yaml/loads_yaml (yaml.dump / yaml.safe_load) *)\n"
        f"Definition API_TABLE : list (string * codec) := [{'; '.join(f'({cstr(a)}, {b})' for a, b in api)}].\n"
        f"Definition TYPE_VALUE_SEP : string := {cstr(sep)}.\n"
        "Definition enc_gen := enc ENCODE_TABLE HOOKS_WIRED.\n"
        "Definition encode_gen sigma encf := enc ENCODE_TABLE HOOKS_WIRED sigma encf false.\n"
        "Definition to_dict_gen sigma encf := enc ENCODE_TABLE HOOKS_WIRED sigma encf true.\n"
        "(* _decode_int evaluates float(v) even when v already is an int *)\n"
        f"Definition DECODE_INT_FLOAT_CMP : bool := {'true' if cmp_ints else 'false'}.\n"
        "Definition decode_gen := decode DISPATCH_ORDER UNION_STRATEGY DC_TYPE_KEY decode_bool_str DECODE_INT_FLOAT_CMP\n"
        "  ANNOT_PREDICATES FROM_DICT_NONE FROM_DICT_CTOR_ERROR FROM_DICT_EXTRAS DECODE_FIELD_HOOK_FIRST HOOKS_WIRED.\n"
        "Definition transport_of_api (name : string) : option transport :=\n"
        "  if String.eqb name \"dict\" then Some TrDict else\n"
        "  match codec_of_suffix API_TABLE name with Some c => transport_of_codec c | None => None end.\n"
        "Definition transport_of_suffix (s : string) : option transport :=\n"
        "  match codec_of_suffix SUFFIX_TABLE s with Some c => transport_of_codec c | None => None end.\n"
    )
