"""Facts for the callable front-ends (C20).

decorators.main: the keywords given to helpers.field, the rule that makes a field positional, the ordering used when
the dataclass is synthesised, how the call is assembled (positionals, who wins between parsed and run-time keywords).
helpers.fields.field: its named parameters (every other keyword lands in metadata["custom_args"]).
custom_actions.BooleanOptionalAction.__init__: the keywords it accepts.   field_wrapper: bool fields use that action and
only_keep_action_args leaves the options of a non-stock action unfiltered.
partial.config_for: ignore_args handling, default handling, required-first insertion, the cache decorator;
Partial.__call__: the merge of field values and call-site kwargs.

Output: coq/Gen/FactsFront.v (imports Model.Front, defines facts_gen).  Fails closed on any unrecognised shape."""
from __future__ import annotations

import ast

from .pyast import Unrecognised, clean, cstrs, find_class, find_def, if_chain, is_logger_call, parse, unparse

KINDS = {"POSITIONAL_ONLY": "PosOnly", "POSITIONAL_OR_KEYWORD": "PosOrKw", "KEYWORD_ONLY": "KwOnly"}


def _strip_logs(tree):
    """Remove logger.debug/info/warning statements everywhere (behaviour-neutral), in place."""
    for node in ast.walk(tree):
        for attr in ("body", "orelse", "finalbody"):
            stmts = getattr(node, attr, None)
            if isinstance(stmts, list) and stmts and isinstance(stmts[0], ast.stmt):
                kept = [x for x in stmts if not is_logger_call(x)]
                if not kept and attr == "body":
                    kept = [ast.Pass()]
                setattr(node, attr, kept)
    return tree


def _nested_def(fn, name):
    f = [n for n in fn.body if isinstance(n, ast.FunctionDef) and n.name == name]
    if len(f) != 1:
        raise Unrecognised(f"nested def {name} not found exactly once in {fn.name}")
    return f[0]


def _kind_expr(node):
    """`parameter.kind == inspect.Parameter.X` / `parameter.kind in (..)` -> list of kinds."""
    if not (isinstance(node, ast.Compare) and len(node.ops) == 1 and unparse(node.left) == "parameter.kind"):
        raise Unrecognised(f"positional= expression {unparse(node)}")

    def one(n):
        t = unparse(n)
        pre = "inspect.Parameter."
        if not t.startswith(pre) or t[len(pre):] not in KINDS:
            raise Unrecognised(f"parameter kind {t}")
        return KINDS[t[len(pre):]]

    op, rhs = node.ops[0], node.comparators[0]
    if isinstance(op, (ast.Eq, ast.Is)):
        return [one(rhs)]
    if isinstance(op, ast.In) and isinstance(rhs, (ast.Tuple, ast.List, ast.Set)):
        return [one(e) for e in rhs.elts]
    raise Unrecognised(f"positional= expression {unparse(node)}")


CKINDS = {"list": "KList", "dict": "KDict", "set": "KSet"}


def _copied_kinds(test, subject):
    """`isinstance(<subject>, (list, dict, set))` -> the container kinds that are wrapped into a deep-copying factory."""
    if not (isinstance(test, ast.Call) and unparse(test.func) == "isinstance" and len(test.args) == 2 and not test.keywords
            and unparse(test.args[0]) == subject):
        raise Unrecognised(f"mutable-default test {unparse(test)}")
    t = test.args[1]
    elts = t.elts if isinstance(t, (ast.Tuple, ast.List)) else [t]
    out = []
    for e in elts:
        if not (isinstance(e, ast.Name) and e.id in CKINDS):
            raise Unrecognised(f"mutable-default test names {unparse(e)}")
        out.append(CKINDS[e.id])
    return out


def _default_arms(stmt):
    """main: `if parameter.default != empty: if isfunction: factory = default [elif isinstance(default, (list, dict, set)):
    factory = partial(copy.deepcopy, default)] else: default = default`.  Returns the copied container kinds."""
    if not (isinstance(stmt, ast.If) and unparse(stmt.test) == "parameter.default != inspect.Parameter.empty" and not stmt.orelse):
        raise Unrecognised("main: default handling " + unparse(stmt)[:160])
    inner = clean(stmt.body)
    if len(inner) != 1:
        raise Unrecognised("main: default handling has several statements")
    arms, els = if_chain(inner[0])
    if [unparse(x) for x in els] != ["default = parameter.default"]:
        raise Unrecognised("main: plain default arm changed")
    if not arms or unparse(arms[0][0]) != "inspect.isfunction(parameter.default)" \
            or [unparse(x) for x in arms[0][1]] != ["default_factory = parameter.default"]:
        raise Unrecognised("main: function-default arm changed")
    if len(arms) == 1:
        return []
    if len(arms) == 2 and [unparse(x) for x in arms[1][1]] == ["default_factory = functools.partial(copy.deepcopy, parameter.default)"]:
        return _copied_kinds(arms[1][0], "parameter.default")
    raise Unrecognised("main: unrecognised default arm " + unparse(inner[0])[:300])


def _main_facts(tree):
    main = find_def(tree, "main")
    deco = _nested_def(main, "_decorate_with_cli_args")
    wrapper = _nested_def(deco, "_wrapper")
    if [a.arg for a in wrapper.args.args] or wrapper.args.vararg is None or wrapper.args.kwarg is None \
            or wrapper.args.vararg.arg != "other_args" or wrapper.args.kwarg.arg != "other_kwargs":
        raise Unrecognised("main._wrapper signature")
    body = clean(wrapper.body)
    texts = [unparse(s) for s in body]

    def need(text):
        if text not in texts:
            raise Unrecognised(f"main: statement `{text}` not found")
        return texts.index(text)

    need("signature = inspect.signature(function, follow_wrapped=True)")
    need("parameters = signature.parameters")
    need("fields = []")
    # ---- the loop that builds one field per parameter
    loops = [s for s in body if isinstance(s, ast.For) and unparse(s.iter) == "parameters.items()"]
    if len(loops) != 1 or unparse(loops[0].target) != "(name, parameter)" or loops[0].orelse:
        raise Unrecognised("main: loop over parameters.items()")
    lbody = clean(loops[0].body)
    ltexts = [unparse(s) for s in lbody]
    expected_loop = [
        "if parameter.annotation == inspect.Parameter.empty:\n    parameter = parameter.replace(annotation=Any)",
        "default, default_factory = (dataclasses.MISSING, dataclasses.MISSING)",
        None,  # the default / default_factory decision, see _default_arms
        None,  # field = _Field(...)
        "fields.append(field)",
    ]
    if len(ltexts) != len(expected_loop):
        raise Unrecognised("main: parameter loop has %d statements" % len(ltexts))
    for got, want in zip(ltexts, expected_loop):
        if want is not None and got != want:
            raise Unrecognised(f"main: parameter loop statement changed: {got[:160]}")
    main_copied = _default_arms(lbody[2])
    fstmt = lbody[3]
    if not (isinstance(fstmt, ast.Assign) and unparse(fstmt.targets[0]) == "field" and isinstance(fstmt.value, ast.Call)
            and unparse(fstmt.value.func) == "_Field" and len(fstmt.value.args) == 3 and not fstmt.value.keywords):
        raise Unrecognised("main: field = _Field(name, annotation, helpers.field(..))")
    a0, a1, a2 = fstmt.value.args
    if unparse(a0) != "name" or unparse(a1) != "parameter.annotation":
        raise Unrecognised("main: _Field name/annotation")
    if not (isinstance(a2, ast.Call) and unparse(a2.func) == "helpers.field" and not a2.args):
        raise Unrecognised("main: helpers.field call")
    kwargs, pos_kinds = [], None
    fixed = {"default": "default", "default_factory": "default_factory", "name": "name",
             "help": "docstring_param_description.get(name, '')"}
    for kw in a2.keywords:
        if kw.arg is None:
            raise Unrecognised("main: **kwargs in the helpers.field call")
        kwargs.append(kw.arg)
        if kw.arg == "positional":
            pos_kinds = _kind_expr(kw.value)
        elif kw.arg in fixed:
            if unparse(kw.value) != fixed[kw.arg]:
                raise Unrecognised(f"main: helpers.field({kw.arg}={unparse(kw.value)})")
        else:
            raise Unrecognised(f"main: helpers.field got an unknown keyword {kw.arg}")
    if "default" not in kwargs or "default_factory" not in kwargs:
        raise Unrecognised("main: helpers.field without default/default_factory")
    if pos_kinds is None:
        pos_kinds = []
    # ---- ordering
    hd = _nested_def(wrapper, "_field_has_default")
    hd_body = [unparse(s) for s in clean(hd.body)]
    if hd_body != ["return field.field.default is not dataclasses.MISSING or field.field.default_factory is not dataclasses.MISSING"]:
        raise Unrecognised("main: _field_has_default body")
    sort_stmts = [t for t in texts if t.startswith("fields = ") and t != "fields = []"]
    if sort_stmts == ["fields = sorted(fields, key=_field_has_default)"]:
        is_sorted = True
    elif not sort_stmts:
        is_sorted = False
    else:
        raise Unrecognised(f"main: ordering statement {sort_stmts}")
    i_mk = need("FunctionArgs = dataclasses.make_dataclass(function.__qualname__, fields)")
    if is_sorted and texts.index(sort_stmts[0]) > i_mk:
        raise Unrecognised("main: fields sorted after make_dataclass")
    need("function_args = parsing.parse(FunctionArgs, dest='args', add_config_path_arg=False, **sp_kwargs)")
    need("args, kwargs = ([], {})")
    loops2 = [x for x in body if isinstance(x, ast.For) and unparse(x.iter) == "dataclasses.fields(function_args)"]
    if len(loops2) != 1 or unparse(loops2[0].target) != "field" or loops2[0].orelse:
        raise Unrecognised("main: loop over dataclasses.fields(function_args)")
    l2 = clean(loops2[0].body)
    if len(l2) != 2 or unparse(l2[0]) != "value = getattr(function_args, field.name)" or not isinstance(l2[1], ast.If):
        raise Unrecognised("main: argument assembly loop changed")
    t = l2[1].test
    if not (isinstance(t, ast.Call) and unparse(t.func) == "field.metadata.get" and len(t.args) == 2 and not t.keywords
            and isinstance(t.args[0], ast.Constant) and isinstance(t.args[0].value, str) and unparse(t.args[1]) == "False"):
        raise Unrecognised(f"main: positional test {unparse(t)}")
    main_pos_key = t.args[0].value
    if [unparse(x) for x in clean(l2[1].body)] != ["args.append(value)"] \
            or [unparse(x) for x in clean(l2[1].orelse)] != ["kwargs.update({field.name: value})"]:
        raise Unrecognised("main: positional / keyword arms of the assembly loop changed")
    if "positionals = (*args, *other_args)" in texts:
        parsed_pos_first = True
    elif "positionals = (*other_args, *args)" in texts:
        parsed_pos_first = False
    else:
        raise Unrecognised("main: positionals = (..)")
    if "keywords = collections.ChainMap(kwargs, other_kwargs)" in texts:
        parsed_wins = True
    elif "keywords = collections.ChainMap(other_kwargs, kwargs)" in texts:
        parsed_wins = False
    else:
        raise Unrecognised("main: keywords = collections.ChainMap(..)")
    if texts[-1] != "return function(*positionals, **keywords)":
        raise Unrecognised(f"main: final call {texts[-1]}")
    # ---- the tail of main itself: bare decorator / decorator factory
    tail = [unparse(x) for x in clean(main.body)][-2:]
    if tail != ["if original_function:\n    return _decorate_with_cli_args(original_function)", "return _decorate_with_cli_args"]:
        raise Unrecognised("main: tail changed: " + " | ".join(tail)[:200])
    if [unparse(x) for x in clean(deco.body)][-1] != "return _wrapper":
        raise Unrecognised("main: _decorate_with_cli_args does not return _wrapper")
    return kwargs, pos_kinds, is_sorted, parsed_wins, main_copied, main_pos_key, parsed_pos_first


def _field_named(tree):
    fn = find_def(tree, "field")
    a = fn.args
    if a.kwarg is None or a.kwarg.arg != "custom_argparse_args" or a.vararg is not None:
        raise Unrecognised("helpers.field: **custom_argparse_args")
    named = [x.arg for x in a.posonlyargs + a.args + a.kwonlyargs]
    texts = [unparse(s) for s in ast.walk(fn) if isinstance(s, ast.stmt)]
    if not any(t.startswith("if custom_argparse_args:\n    _metadata.update({'custom_args': custom_argparse_args})") for t in texts):
        raise Unrecognised("helpers.field: custom_args metadata")
    keys = []
    for n in ast.walk(fn):
        if isinstance(n, ast.Assign) and len(n.targets) == 1 and isinstance(n.targets[0], ast.Subscript) \
                and unparse(n.targets[0].value) == "_metadata" and isinstance(n.value, ast.Name) and n.value.id == "positional":
            k = n.targets[0].slice
            if not (isinstance(k, ast.Constant) and isinstance(k.value, str)):
                raise Unrecognised("helpers.field: positional metadata key")
            keys.append(k.value)
    if len(keys) > 1:
        raise Unrecognised("helpers.field: positional stored twice")
    field_pos_key = keys[0] if keys else ""
    # the three-way return: default -> dataclasses.field(default=default, ..), factory -> (default_factory=..), neither
    last = clean(fn.body)[-1]
    want = ("if default is not MISSING:\n    return dataclasses.field(default=default, init=init, repr=repr, hash=hash, compare=compare, "
            "metadata=_metadata)\nelif not isinstance(default_factory, dataclasses._MISSING_TYPE):\n    return dataclasses.field("
            "default_factory=default_factory, init=init, repr=repr, hash=hash, compare=compare, metadata=_metadata)\nelse:\n"
            "    return dataclasses.field(init=init, repr=repr, hash=hash, compare=compare, metadata=_metadata)")
    if unparse(last) != want:
        raise Unrecognised("helpers.field: default / default_factory flow changed: " + unparse(last)[:300])
    return named, field_pos_key


def _bool_action_params(tree):
    cls = find_class(tree, "BooleanOptionalAction")
    init = [n for n in cls.body if isinstance(n, ast.FunctionDef) and n.name == "__init__"]
    if len(init) != 1:
        raise Unrecognised("BooleanOptionalAction.__init__")
    a = init[0].args
    if a.kwarg is not None or a.vararg is not None:
        raise Unrecognised("BooleanOptionalAction.__init__ takes *args/**kwargs")
    names = [x.arg for x in a.posonlyargs + a.args + a.kwonlyargs]
    if not names or names[0] != "self":
        raise Unrecognised("BooleanOptionalAction.__init__ self")
    return names[1:]


def _check_field_wrapper(tree):
    """bool fields get action=BooleanOptionalAction; only_keep_action_args leaves a non-stock action's options alone and
    drops unknown keys for stock ones; custom args overwrite the generated ones."""
    fw = find_class(tree, "FieldWrapper")
    found = False
    for n in ast.walk(fw):
        if isinstance(n, ast.If) and unparse(n.test) == "utils.is_bool(self.type)":
            inner = [unparse(s) for s in ast.walk(n) if isinstance(s, ast.Assign)]
            if "_arg_options['action'] = BooleanOptionalAction" in inner:
                found = True
    if not found:
        raise Unrecognised("field_wrapper: bool fields no longer use BooleanOptionalAction")
    ao = [n for n in fw.body if isinstance(n, ast.FunctionDef) and n.name == "arg_options"]
    if len(ao) != 1:
        raise Unrecognised("FieldWrapper.arg_options")
    want = ["if self._arg_options:\n    return self._arg_options", "options = self.get_arg_options()",
            "options.update(self.custom_arg_options)", "action = options.get('action', 'store')",
            "self._arg_options = only_keep_action_args(options, action)", "return self._arg_options"]
    if [unparse(s) for s in clean(ao[0].body)] != want:
        raise Unrecognised("FieldWrapper.arg_options body changed")
    cao = [n for n in fw.body if isinstance(n, ast.FunctionDef) and n.name == "custom_arg_options"]
    if len(cao) != 1 or [unparse(s) for s in clean(cao[0].body)] != ["return self.field.metadata.get('custom_args', {})"]:
        raise Unrecognised("FieldWrapper.custom_arg_options")
    oka = find_def(tree, "only_keep_action_args")
    texts = [unparse(s) for s in clean(oka.body)]
    for t in ("if action not in argparse_action_classes:\n    return options",
              "args_to_keep = argspec.args + ['action']",
              "kept_options, deleted_options = utils.keep_keys(options, args_to_keep)",
              "return kept_options"):
        if t not in texts:
            raise Unrecognised(f"only_keep_action_args: `{t}` not found")
    table = [s for s in clean(oka.body) if isinstance(s, ast.AnnAssign) and unparse(s.target) == "argparse_action_classes"]
    if len(table) != 1 or not isinstance(table[0].value, ast.Dict):
        raise Unrecognised("only_keep_action_args: table of stock actions")
    for k, v in zip(table[0].value.keys, table[0].value.values):
        if not (isinstance(k, ast.Constant) and isinstance(k.value, str) and unparse(v).startswith("argparse._")):
            raise Unrecognised("only_keep_action_args: stock action entry")


def _field_call_kwargs(node, what):
    if not (isinstance(node, ast.Call) and unparse(node.func) == "simple_parsing.field" and not node.args):
        raise Unrecognised(f"config_for: {what} field call {unparse(node)}")
    out = []
    for kw in node.keywords:
        if kw.arg is None:
            raise Unrecognised(f"config_for: **kwargs in the {what} field call")
        out.append((kw.arg, unparse(kw.value)))
    return out


def _config_for_facts(tree):
    fn = find_def(tree, "config_for")
    decos = [unparse(d) for d in fn.decorator_list]
    if decos == ["_cache_when_possible"]:
        cached = True
    elif not decos:
        cached = False
    else:
        raise Unrecognised(f"config_for decorators {decos}")
    a = fn.args
    if [x.arg for x in a.args] != ["cls", "ignore_args", "frozen"] or a.kwarg is None or a.kwarg.arg != "defaults" \
            or [unparse(d) for d in a.defaults] != ["()", "True"] or a.kwonlyargs or a.posonlyargs or a.vararg:
        raise Unrecognised("config_for signature")
    if cached:
        cw = find_def(tree, "_cache_when_possible")
        want = ["cached_fn = lru_cache(maxsize=None)(fn)",
                "def _all_hashable(args: tuple, kwargs: dict) -> bool:\n    return all((isinstance(arg, Hashable) for arg in args)) "
                "and all((isinstance(arg, Hashable) for arg in kwargs.values()))",
                "@wraps(fn)\ndef _switch(*args: _P.args, **kwargs: _P.kwargs) -> _OutT:\n    if _all_hashable(args, kwargs):\n"
                "        hashable_kwargs = typing.cast(dict[str, Hashable], kwargs)\n        return cached_fn(*args, **hashable_kwargs)\n"
                "    return fn(*args, **kwargs)",
                "return _switch"]
        got = [unparse(s) for s in clean(cw.body)]
        if got != want:
            raise Unrecognised("_cache_when_possible body changed: " + " | ".join(got)[:400])
    body = clean(fn.body)
    texts = [unparse(s) for s in body]
    if "if isinstance(ignore_args, str):\n    ignore_args = (ignore_args,)\nelse:\n    ignore_args = tuple(ignore_args)" in texts:
        str_single = True
    elif "ignore_args = tuple(ignore_args)" in texts:
        str_single = False      # a str is then taken apart into its characters
    else:
        raise Unrecognised("config_for: ignore_args normalisation")
    target_set = "config_class._target_ = cls" in texts
    if not target_set and any("_target_" in t for t in texts):
        raise Unrecognised("config_for: _target_ assigned in an unrecognised way")
    for t in ("signature = inspect.signature(cls)", "fields: list[tuple[str, type, dataclasses.Field]] = []",
              "config_class = make_dataclass(cls_name=cls_name, bases=(Partial,), fields=fields, frozen=frozen)",
              "class_annotations = get_type_hints(cls)", "return config_class"):
        if t not in texts:
            raise Unrecognised(f"config_for: `{t}` not found")
    loops = [s for s in body if isinstance(s, ast.For) and unparse(s.iter) == "signature.parameters.items()"]
    if len(loops) != 1 or unparse(loops[0].target) != "(name, parameter)" or loops[0].orelse:
        raise Unrecognised("config_for: loop over signature.parameters.items()")
    lb = clean(loops[0].body)
    lt = [unparse(s) for s in lb]
    head = ["default = defaults.get(name, parameter.default)",
            "if default is parameter.empty:\n    default = dataclasses.MISSING",
            "default = adjust_default(default)"]
    if lt[:3] != head:
        raise Unrecognised("config_for: default handling changed: " + " | ".join(lt[:3])[:300])
    rest = lt[3:]
    skips = False
    if rest and rest[0] == "if name in ignore_args:\n    continue":
        skips = True
        rest = rest[1:]
        lb_rest = lb[4:]
    else:
        lb_rest = lb[3:]
        if any("ignore_args" in t for t in rest):
            raise Unrecognised("config_for: ignore_args used in an unrecognised way")
    # where the field's type comes from: an if/elif chain, translated arm by arm (order = precedence)
    sources = {"parameter.annotation is not inspect.Parameter.empty": ("SrcParam", "field_type = parameter.annotation"),
               "name in class_annotations": ("SrcClass", "field_type = class_annotations[name]"),
               "default is not dataclasses.MISSING": ("SrcInfer", "field_type = infer_type_annotation_from_default(default)")}
    chain_stmt = lb_rest[0] if lb_rest else None
    if not isinstance(chain_stmt, ast.If):
        raise Unrecognised("config_for: field type chain not found")
    arms, els = if_chain(chain_stmt)
    type_chain = []
    for test, arm_body in arms:
        src = sources.get(unparse(test))
        if src is None or [unparse(x) for x in arm_body] != [src[1]] or src[0] in type_chain:
            raise Unrecognised(f"config_for: field type chain arm `{unparse(test)}`")
        type_chain.append(src[0])
    if [unparse(x) for x in els] != ["continue"]:
        raise Unrecognised("config_for: a parameter without any type source is no longer skipped")
    last = lb_rest[-1]
    if not (isinstance(last, ast.If) and unparse(last.test) == "default is dataclasses.MISSING" and len(last.orelse) >= 1):
        raise Unrecognised("config_for: required/optional split")
    req, opt = clean(last.body), clean(last.orelse)
    if len(req) != 2 or len(opt) != 2:
        raise Unrecognised("config_for: required/optional arms")
    cf_copied = []
    if isinstance(opt[0], ast.If):
        # if isinstance(default, (list, dict, set)): field = field(default_factory=partial(copy.deepcopy, default), help=..)
        # else: field = field(default=default, help=..)
        c_body, c_else = clean(opt[0].body), clean(opt[0].orelse)
        if len(c_body) != 1 or len(c_else) != 1 or not isinstance(c_body[0], ast.Assign) or unparse(c_body[0].targets[0]) != "field":
            raise Unrecognised("config_for: mutable-default arm")
        ckw = dict(_field_call_kwargs(c_body[0].value, "copied-default"))
        if ckw != {"default_factory": "functools.partial(copy.deepcopy, default)", "help": "help_str"}:
            raise Unrecognised(f"config_for: mutable-default field call {ckw}")
        cf_copied = _copied_kinds(opt[0].test, "default")
        opt = [c_else[0], opt[1]]

    def arm(stmts, what):
        s0, s1 = stmts
        if not (isinstance(s0, ast.Assign) and unparse(s0.targets[0]) == "field"):
            raise Unrecognised(f"config_for: {what} arm")
        kws = _field_call_kwargs(s0.value, what)
        t = unparse(s1)
        if t == "fields.insert(0, (name, field_type, field))":
            return kws, "front"
        if t == "fields.append((name, field_type, field))":
            return kws, "back"
        raise Unrecognised(f"config_for: {what} arm inserts with `{t}`")

    req_kws, req_where = arm(req, "required")
    opt_kws, opt_where = arm(opt, "optional")
    if opt_where != "back":
        raise Unrecognised("config_for: optional fields are not appended")
    if dict(req_kws).get("required") != "True" or "default" in dict(req_kws):
        raise Unrecognised("config_for: required field call")
    if dict(opt_kws).get("default") != "default":
        raise Unrecognised("config_for: optional field call")
    for k, v in req_kws + opt_kws:
        if k == "help" and v != "help_str":
            raise Unrecognised("config_for: help=")
    # ---- Partial.__call__
    call = find_def(tree, "__call__", cls="Partial")
    ct = [unparse(s) for s in clean(call.body)]
    if [x.arg for x in call.args.args] != ["self"] or call.args.vararg is None or call.args.kwarg is None:
        raise Unrecognised("Partial.__call__ signature")
    own = "constructor_kwargs = {field.name: getattr(self, field.name) for field in dataclasses.fields(self)}"
    if ct == [own, "constructor_kwargs.update(**kwargs)", "self = cast(Partial, self)",
              "return type(self)._target_(*args, **constructor_kwargs)"]:
        call_site_wins = True
    elif ct == [own, "kwargs.update(**constructor_kwargs)", "self = cast(Partial, self)",
                "return type(self)._target_(*args, **kwargs)"]:
        call_site_wins = False
    else:
        raise Unrecognised("Partial.__call__ body changed: " + " | ".join(ct)[:400])
    # ---- Partial[target]: always derived from the target itself, through the (callable-keyed) cache of config_for
    gi = find_def(tree, "__getitem__", cls="_Partial")
    want = ["config_class = config_for(target)", "config_class.__module__ = __name__",
            "_autogenerated_config_classes[config_class.__qualname__] = config_class", "return config_class"]
    got = [unparse(x) for x in clean(gi.body)]
    if [a.arg for a in gi.args.args] != ["cls", "target"] or got != want:
        raise Unrecognised("_Partial.__getitem__ body changed: " + " | ".join(got)[:400])
    # ---- small helpers the model takes for granted
    ad = find_def(tree, "adjust_default")
    if [unparse(d) for d in ad.decorator_list] != ["singledispatch"] or [unparse(x) for x in clean(ad.body)] != ["return default"]:
        raise Unrecognised("adjust_default is no longer the identity by default")
    pn = find_def(tree, "__new__", cls="Partial")
    if [unparse(x) for x in clean(pn.body)] != ["_func = __func or cls._target_", "assert _func is not None",
                                                 "return super().__new__(cls, _func, *args, **kwargs)"]:
        raise Unrecognised("Partial.__new__ body changed")
    gn = find_def(tree, "_get_generated_config_class_name")
    if [unparse(x) for x in clean(gn.body)] != ["if inspect.isclass(target):\n    return target.__name__ + 'Config'\n"
                                                "elif inspect.isfunction(target):\n    return target.__name__ + '_config'",
                                                "raise NotImplementedError(target)"]:
        raise Unrecognised("_get_generated_config_class_name body changed")
    return str_single, target_set, type_chain, cf_copied, cached, skips, [k for k, _ in req_kws], [k for k, _ in opt_kws], req_where == "front", call_site_wins


BTY = {"int": "TInt", "str": "TStr", "float": "TFloat", "bool": "TBool"}


def _infer_rule(tree):
    """Head of infer_type_annotation_from_default: which builtin an un-annotated parameter's default is typed as."""
    fn = find_def(tree, "infer_type_annotation_from_default")
    if [a.arg for a in fn.args.args] != ["default"]:
        raise Unrecognised("infer_type_annotation_from_default signature")
    body = clean(fn.body)
    texts = [unparse(x) for x in body]
    tail = ["if isinstance(default, tuple):\n    return tuple[tuple((infer_type_annotation_from_default(d) for d in default))]",
            "if isinstance(default, list):\n    if not default:\n        return list\n"
            "    return list[infer_type_annotation_from_default(default[0])]",
            "if isinstance(default, dict):\n    if not default:\n        return dict",
            'raise NotImplementedError(f"Don\'t know how to infer type annotation to use for default of {default}")']
    if len(texts) != 5 or texts[1:] != tail:
        raise Unrecognised("infer_type_annotation_from_default: tuple/list/dict part changed: " + " | ".join(texts[1:])[:300])
    head = body[0]

    def names(node):
        if not isinstance(node, (ast.Tuple, ast.List)):
            raise Unrecognised(f"infer_type_annotation_from_default: type tuple {unparse(node)}")
        out = []
        for e in node.elts:
            if not (isinstance(e, ast.Name) and e.id in BTY):
                raise Unrecognised(f"infer_type_annotation_from_default: type {unparse(e)}")
            out.append(BTY[e.id])
        return out

    if isinstance(head, ast.If) and not head.orelse and isinstance(head.test, ast.Call) and unparse(head.test.func) == "isinstance" \
            and len(head.test.args) == 2 and unparse(head.test.args[0]) == "default" \
            and [unparse(x) for x in clean(head.body)] == ["return type(default)"]:
        return "InferTypeOf [" + "; ".join(names(head.test.args[1])) + "]"
    if isinstance(head, ast.For) and not head.orelse and isinstance(head.target, ast.Name):
        v = head.target.id
        if [unparse(x) for x in clean(head.body)] == [f"if isinstance(default, {v}):\n    return {v}"]:
            return "InferFirst [" + "; ".join(names(head.iter)) + "]"
    raise Unrecognised("infer_type_annotation_from_default: head statement " + texts[0][:200])


def _b(x):
    return "true" if x else "false"


def emit(repo: str) -> str:
    deco = _strip_logs(parse(repo, "simple_parsing/decorators.py"))
    fields = _strip_logs(parse(repo, "simple_parsing/helpers/fields.py"))
    ca = _strip_logs(parse(repo, "simple_parsing/helpers/custom_actions.py"))
    fw = _strip_logs(parse(repo, "simple_parsing/wrappers/field_wrapper.py"))
    partial = _strip_logs(parse(repo, "simple_parsing/helpers/partial.py"))
    main_kwargs, pos_kinds, is_sorted, parsed_wins, main_copied, main_pos_key, parsed_pos_first = _main_facts(deco)
    named, field_pos_key = _field_named(fields)
    bool_params = _bool_action_params(ca)
    _check_field_wrapper(fw)
    str_single, target_set, type_chain, cf_copied, cached, skips, req_kws, opt_kws, req_front, call_site_wins = _config_for_facts(partial)
    infer_rule = _infer_rule(partial)
    return (
        "From SPV Require Import Base.Str Model.Front.\nOpen Scope string_scope.\n"
        "Definition facts_gen : facts := {|\n"
        f"  f_field_pos_key := {cstrs([field_pos_key])[1:-1]};\n"
        f"  f_main_pos_key := {cstrs([main_pos_key])[1:-1]};\n"
        f"  f_main_parsed_pos_first := {_b(parsed_pos_first)};\n"
        f"  f_cf_type_chain := [{'; '.join(type_chain)}];\n"
        f"  f_cf_str_single := {_b(str_single)};\n"
        f"  f_cf_target_set := {_b(target_set)};\n"
        f"  f_main_copied := [{'; '.join(main_copied)}];\n"
        f"  f_cf_copied := [{'; '.join(cf_copied)}];\n"
        f"  f_infer := {infer_rule};\n"
        f"  f_main_kwargs := {cstrs(main_kwargs)};\n"
        f"  f_field_named := {cstrs(named)};\n"
        f"  f_bool_params := {cstrs(bool_params)};\n"
        f"  f_main_pos_kinds := [{'; '.join(pos_kinds)}];\n"
        f"  f_main_sorted := {_b(is_sorted)};\n"
        f"  f_main_parsed_wins := {_b(parsed_wins)};\n"
        f"  f_cf_req_kwargs := {cstrs(req_kws)};\n"
        f"  f_cf_opt_kwargs := {cstrs(opt_kws)};\n"
        f"  f_cf_req_front := {_b(req_front)};\n"
        f"  f_cf_skips_ignored := {_b(skips)};\n"
        f"  f_cf_cached := {_b(cached)};\n"
        f"  f_call_site_wins := {_b(call_site_wins)}\n"
        "|}.\n"
    )
