"""FieldWrapper.duplicate_if_needed dumped as a MiniPy block (coq/Model/MiniPy.v): the regenerated *source* of what
Model/Merge.v `duplicate` describes.  Output: coq/Gen/FactsDupSrc.v.

Attributes and helper calls read by the method are variables of the block (ATTRS).  `utils.get_nesting_level` is a primitive
of the interpreter (MiniPy.nest_level); its source text is shape-checked by translate/Merge.py on every run."""
from __future__ import annotations

from .minipy import Ctx, method_block
from .pyast import Unrecognised, cstr, find_def, parse

ATTRS = ["self.destinations", "self.is_reused", "self.is_tuple", "self.is_list", "utils.is_list(self.type)", "self.name"]
PARAMS = ["self", "parsed_values"]


def emit(repo: str) -> str:
    fw = parse(repo, "simple_parsing/wrappers/field_wrapper.py")
    fn = find_def(fw, "duplicate_if_needed", cls="FieldWrapper")
    a = fn.args
    if [x.arg for x in a.posonlyargs + a.args] != PARAMS or a.vararg or a.kwarg or a.kwonlyargs or a.defaults:
        raise Unrecognised("duplicate_if_needed: expected the parameters (self, parsed_values)")
    c = Ctx(attr_vars=ATTRS, prims={"utils.get_nesting_level": "ENestLevel"})
    blk, assigned = method_block(fn, c)
    locs = [x for x in assigned if x not in PARAMS]
    return ("From SPV Require Import Base.Str Model.MiniPy.\nOpen Scope string_scope.\n"
            f"Definition duplicate_src : block :=\n  {blk}.\n"
            "(* every local the method assigns besides its parameter, in order of first assignment *)\n"
            f"Definition duplicate_locals : list string := [{'; '.join(cstr(x) for x in locs)}].\n")
