"""Three helper bodies that translate/Leaf.py only pins, dumped as MiniPy blocks (coq/Model/MiniPy.v) so that Proofs/MiniPyLeaf.v
can prove them equal to the hand model coq/Model/Leaf.v.  Output: coq/Gen/FactsLeafSrc.v.

  is_homogeneous_tuple_type_src, get_container_nargs_src     simple_parsing/utils.py, whole bodies
  postprocess_src                                            FieldWrapper.postprocess (wrappers/field_wrapper.py), whole body

A typing annotation is an opaque value; is_tuple / is_list / get_type_arguments / utils.is_optional / utils.get_args / utils.is_tuple are
uninterpreted functions given by tables (ECallTable); `Ellipsis` is a sentinel constant; self.is_enum / is_choice / is_tuple / is_bool /
is_list / is_subparser / choice_dict / type are attributes of the object `self`; utils.builtin_types is an attribute of `utils`.
Rewrites made here before the translation, each checked against the exact source text (anything else fails closed):
  assert isinstance(type_arguments, tuple), type_arguments      the message (a bare name) is dropped
  for item_type in type_arguments:                              iterates list(type_arguments) (type_arguments is a tuple)
  tuple(x)                                                      an uninterpreted function `tuple` (table): MiniPy has no list->tuple primitive
  type(next(iter(choice_dict.keys())))                          type(list(choice_dict.keys())[0]); `type` is a table.  (On an empty dict the
                                                                source raises StopIteration, the dump IndexError: guarded by `if choice_dict:`)
  isinstance(x, key_type) with the VARIABLE class key_type      isinstance((x, key_type)): a table on the pair
  try: return self.type(raw_parsed_value) / except Exception: .. return raw_parsed_value
                                                                return self._type_or_raw(raw_parsed_value): ONE uninterpreted function
                                                                "call the type; on any exception the raw value" (table attribute of self)
logger.debug(..) is skipped."""
from __future__ import annotations

import ast

from .minipy import Ctx, method_block
from .pyast import Unrecognised, clean, find_def, parse, unparse

CONSTS = {"Ellipsis": "Ellipsis"}
ASSERT_TXT = "assert isinstance(type_arguments, tuple), type_arguments"
FOR_ITER = "type_arguments"
KEYTYPE_TXT = "key_type = type(next(iter(choice_dict.keys())))"
TRY_BODY = ["return self.type(raw_parsed_value)"]
TRY_HANDLER = ["return raw_parsed_value"]


def _call(name, *args):
    return ast.Call(func=ast.Name(id=name, ctx=ast.Load()), args=list(args), keywords=[])


class _Utils(ast.NodeTransformer):
    def visit_Assert(self, node):
        if node.msg is not None and not isinstance(node.msg, ast.Constant):
            if unparse(node) != ASSERT_TXT:
                raise Unrecognised(f"assert with a computed message: {unparse(node)[:80]}")
            return ast.copy_location(ast.Assert(test=node.test, msg=None), node)
        return node

    def visit_For(self, node):
        self.generic_visit(node)
        if unparse(node.iter) == FOR_ITER:
            node.iter = _call("list", node.iter)
        return node


class _Post(ast.NodeTransformer):
    def __init__(self):
        self.tries = 0
        self.keytype = 0

    def visit_Try(self, node):
        hs = node.handlers
        if len(hs) != 1 or unparse(hs[0].type) != "Exception" or node.orelse or node.finalbody \
                or [unparse(s) for s in clean(node.body)] != TRY_BODY or [unparse(s) for s in clean(hs[0].body)] != TRY_HANDLER:
            raise Unrecognised("FieldWrapper.postprocess: the try statement is not `return self.type(raw) / except Exception: return raw`")
        self.tries += 1
        call = ast.Call(func=ast.Attribute(value=ast.Name(id="self", ctx=ast.Load()), attr="_type_or_raw", ctx=ast.Load()),
                        args=[ast.Name(id="raw_parsed_value", ctx=ast.Load())], keywords=[])
        return ast.copy_location(ast.Return(value=call), node)

    def visit_Assign(self, node):
        if unparse(node) == KEYTYPE_TXT:
            self.keytype += 1
            keys = node.value.args[0].args[0].args[0]                 # choice_dict.keys()
            first = ast.Subscript(value=_call("list", keys), slice=ast.Constant(value=0), ctx=ast.Load())
            return ast.copy_location(ast.Assign(targets=node.targets, value=_call("type", first)), node)
        self.generic_visit(node)
        return node

    def visit_Call(self, node):
        self.generic_visit(node)
        if isinstance(node.func, ast.Name) and node.func.id == "isinstance" and len(node.args) == 2 and not node.keywords \
                and isinstance(node.args[1], ast.Name) and node.args[1].id == "key_type":
            return ast.copy_location(_call("isinstance", ast.Tuple(elts=list(node.args), ctx=ast.Load())), node)
        if isinstance(node.func, ast.Name) and node.func.id in ("next", "iter"):
            raise Unrecognised("next / iter outside `" + KEYTYPE_TXT + "`")
        return node


def _params(fn, want):
    a = fn.args
    if [x.arg for x in a.posonlyargs + a.args] != want or a.vararg or a.kwarg or a.kwonlyargs or a.defaults:
        raise Unrecognised(f"{fn.name}: expected the parameters {want}")


def emit(repo: str) -> str:
    utils = parse(repo, "simple_parsing/utils.py")
    fwmod = parse(repo, "simple_parsing/wrappers/field_wrapper.py")
    out = ["(* GENERATED from /repo by harness/translate/LeafSrc.py on every check - do not edit *)",
           "From SPV Require Import Base.Str Model.MiniPy.", "Open Scope string_scope."]
    for name, want in (("is_homogeneous_tuple_type", ["t"]), ("get_container_nargs", ["container_type"])):
        fn = find_def(utils, name)
        _params(fn, want)
        for n in ast.walk(fn):
            if isinstance(n, ast.Name) and isinstance(n.ctx, ast.Store) and n.id in ("is_tuple", "is_list", "get_type_arguments", "Ellipsis", "tuple", "list", "set", "len"):
                raise Unrecognised(f"{name} re-binds {n.id}")
        fn = ast.fix_missing_locations(_Utils().visit(fn))
        blk, _ = method_block(fn, Ctx(objects=True, consts=CONSTS, tables=["is_tuple", "is_list", "get_type_arguments"]))
        out.append(f"Definition {name}_src : list stmt :=\n  {blk}.")
    pp = find_def(fwmod, "postprocess", cls="FieldWrapper")
    _params(pp, ["self", "raw_parsed_value"])
    for n in ast.walk(pp):
        if isinstance(n, ast.Name) and isinstance(n.ctx, ast.Store) and n.id in ("self", "utils", "tuple", "type", "isinstance", "list"):
            raise Unrecognised(f"postprocess re-binds {n.id}")
    tr = _Post()
    pp = ast.fix_missing_locations(tr.visit(pp))
    if tr.tries != 1 or tr.keytype != 1:
        raise Unrecognised("FieldWrapper.postprocess: expected one try statement and one `" + KEYTYPE_TXT + "`")
    blk, _ = method_block(pp, Ctx(objects=True, tables=["tuple", "type", "isinstance", "self._type_or_raw", "utils.is_optional", "utils.get_args", "utils.is_tuple"]))
    out.append(f"Definition postprocess_src : list stmt :=\n  {blk}.")
    return "\n".join(out) + "\n"
