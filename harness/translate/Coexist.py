"""Facts for C09 (plain argparse declarations next to dataclasses): what ArgumentParser.__init__ hands to
super().__init__ for `parents`/`add_help`, where (if anywhere) the parents' actions are installed, the skip tests of
the three field loops (DataclassWrapper.__init__, DataclassWrapper.add_arguments,
ArgumentParser._fill_constructor_arguments_with_fields), the order of _postprocessing, the collision rule of
_instantiate_dataclasses and how add_argument_group forwards prefix_chars/argument_default/conflict_handler.

Output: coq/Gen/FactsCoexist.v (instantiates Model/Coexist.v).  Fail closed on any other shape."""
from __future__ import annotations

import ast

from .pyast import Unrecognised, clean, find_class, find_def, if_chain, kw_defaults, parse, unparse  # noqa: F401

POST_TESTS = {
    "argparse.SUPPRESS in wrapper.defaults and field.dest not in parsed_args": "SkSuppressAbsent",
    "field.is_subgroup": "SkSubgroup",
    "not field.field.init": "SkNotInit",
    "not field.field.metadata.get('cmd', True)": "SkCmdFalse",
    "field.is_subparser": "SkSubparser",
}
WRAP_TESTS = {
    "not field.init": "SkNotInit",
    "field.metadata.get('cmd', True) is False": "SkCmdFalse",
    "not field.metadata.get('cmd', True)": "SkCmdFalse",
}
SETUP_TESTS = {
    "wrapped_field.is_subparser": "SkSubparser",
    "wrapped_field.is_subgroup": "SkSubgroup",
    "not wrapped_field.field.init": "SkNotInit",
}


def _has(node, typ):
    return any(isinstance(n, typ) for n in ast.walk(node))


def _is_continue_if(s):
    return isinstance(s, ast.If) and not s.orelse and clean(s.body) and isinstance(clean(s.body)[-1], ast.Continue)


def _for_loops(fn, target, it):
    return [n for n in ast.walk(fn) if isinstance(n, ast.For) and unparse(n.target) == target and unparse(n.iter) == it]


def _one(xs, what):
    if len(xs) != 1:
        raise Unrecognised(f"{what}: found {len(xs)} times")
    return xs[0]


# ---- constructor / parents ------------------------------------------------------------------------


def _parents_loop_ok(loop, where):
    """`for parent in self._parents:` that installs the parent's actions AND its defaults."""
    calls = [unparse(n) for n in ast.walk(loop) if isinstance(n, ast.Call)]
    if "self._add_container_actions(parent)" not in calls:
        raise Unrecognised(f"{where}: loop over self._parents does not call self._add_container_actions(parent)")
    if not any(c.startswith("self._defaults.update(") for c in calls):
        raise Unrecognised(f"{where}: loop over self._parents installs the actions but not the parents' defaults")
    for s in clean(loop.body):
        t = unparse(s)
        ok = (t == "self._add_container_actions(parent)" or t.startswith("self._defaults.update(")
              or (isinstance(s, ast.If) and unparse(s.test) == "isinstance(parent, ArgumentParser)"
                  and all(unparse(x).startswith("parent._preprocessing(") for x in clean(s.body)) and not s.orelse)
              or (isinstance(s, ast.Try) and all(isinstance(x, (ast.Assign, ast.Expr)) for x in clean(s.body))
                  and all(unparse(h.type) == "AttributeError" and not clean(h.body) for h in s.handlers)))
        if not ok:
            raise Unrecognised(f"{where}: statement in the loop over self._parents: {t[:80]}")


def _constructor(cls):
    init = find_def_in(cls, "__init__")
    d = kw_defaults(init)
    if "parents" not in d or unparse(d["parents"]) != "()" or "add_help" not in d or unparse(d["add_help"]) != "True":
        raise Unrecognised("ArgumentParser.__init__: defaults of parents/add_help")
    supers = [n for n in ast.walk(init) if isinstance(n, ast.Call) and unparse(n.func) == "super().__init__"]
    call = _one(supers, "ArgumentParser.__init__: super().__init__ call")
    if [unparse(a) for a in call.args] != ["*args"]:
        raise Unrecognised("super().__init__ positional arguments")
    kws = {k.arg: k.value for k in call.keywords if k.arg is not None}
    if [unparse(k.value) for k in call.keywords if k.arg is None] != ["kwargs"]:
        raise Unrecognised("super().__init__ must forward **kwargs")
    if set(kws) != {"parents", "add_help"}:
        raise Unrecognised(f"super().__init__ keywords {sorted(kws)}")
    pv, hv = unparse(kws["parents"]), unparse(kws["add_help"])
    if pv not in ("[]", "()", "parents", "self._parents"):
        raise Unrecognised(f"super().__init__(parents={pv})")
    if hv not in ("False", "add_help"):
        raise Unrecognised(f"super().__init__(add_help={hv})")
    fwd_parents = pv in ("parents", "self._parents")
    fwd_help = hv == "add_help"
    # own help block
    body = clean(init.body)
    texts = [unparse(s) for s in body]
    help_ifs = [s for s in body if isinstance(s, ast.If) and unparse(s.test) in ("self.add_help", "add_help")]
    own_help = False
    if help_ifs:
        h = _one(help_ifs, "help block")
        calls = [n for n in ast.walk(h) if isinstance(n, ast.Call) and unparse(n.func) == "super().add_argument"]
        c = _one(calls, "help block: super().add_argument")
        if [unparse(a) for a in c.args] != ["default_prefix + 'h'", "default_prefix * 2 + 'help'"]:
            raise Unrecognised("help block: option strings")
        ck = {k.arg: unparse(k.value) for k in c.keywords}
        if ck.get("action") != "'help'" or ck.get("default") != "SUPPRESS":
            raise Unrecognised("help block: action/default")
        pre = [unparse(s) for s in clean(h.body)[:2]]
        if pre != ["prefix_chars = self.prefix_chars", "default_prefix = '-' if '-' in prefix_chars else prefix_chars[0]"]:
            raise Unrecognised("help block: default prefix computation")
        if h.orelse:
            raise Unrecognised("help block: else branch")
        own_help = True
        if "self.add_help = add_help" not in texts:
            raise Unrecognised("self.add_help assignment")
    if own_help == fwd_help:
        raise Unrecognised("help action installed twice or never (super add_help and own block)")
    return init, fwd_parents, fwd_help, own_help, texts


def find_def_in(cls, name):
    f = [n for n in cls.body if isinstance(n, ast.FunctionDef) and n.name == name]
    if not f:
        raise Unrecognised(f"def {cls.name}.{name} not found")
    return f[-1]


def _parents_site(cls, init, fwd_parents, init_texts):
    uses = []  # (function name, node) of every load of self._parents
    for fn in cls.body:
        if not isinstance(fn, ast.FunctionDef):
            continue
        for n in ast.walk(fn):
            if isinstance(n, ast.Attribute) and n.attr == "_parents" and isinstance(n.ctx, ast.Load) and unparse(n.value) == "self":
                uses.append(fn.name)
    loops_init = _for_loops(init, "parent", "self._parents")
    pre = find_def_in(cls, "_preprocessing")
    loops_pre = _for_loops(pre, "parent", "self._parents")
    n_loops = len(loops_init) + len(loops_pre)
    # every load of self._parents must be one of the recognised loops (or the forwarding to super)
    allowed = n_loops + (1 if fwd_parents and "parents=self._parents" in " ".join(init_texts) else 0)
    if len(uses) != allowed:
        raise Unrecognised(f"self._parents is read in {sorted(set(uses))} in a way the translator does not know")
    if fwd_parents:
        if n_loops:
            raise Unrecognised("parents forwarded to super().__init__ and installed again")
        return "PInit"
    if "self._parents = tuple(parents)" not in init_texts:
        raise Unrecognised("self._parents assignment")
    if n_loops == 0:
        return "PNever"
    if n_loops > 1:
        raise Unrecognised("parents installed more than once")
    if loops_init:
        loop = loops_init[0]
        if loop not in init.body:
            raise Unrecognised("__init__: loop over self._parents is not a top-level statement")
        _parents_loop_ok(loop, "__init__")
        # it must run before the caller can declare anything, i.e. anywhere in the constructor: fine
        return "PInit"
    loop = loops_pre[0]
    if loop not in pre.body:
        raise Unrecognised("_preprocessing: loop over self._parents is not a top-level statement")
    _parents_loop_ok(loop, "_preprocessing")
    # must come after the `_preprocessing_done` guard and before the wrappers' arguments are added
    idx = pre.body.index(loop)
    before = [unparse(s) for s in clean(pre.body[:idx])]
    after = " ".join(unparse(s) for s in pre.body[idx + 1:])
    if not any(t.startswith("if self._preprocessing_done:") for t in before) or "add_arguments(parser=self)" not in after:
        raise Unrecognised("_preprocessing: position of the loop over self._parents")
    return "PPreprocess"


# ---- the three field loops ------------------------------------------------------------------------


def _post_skips(cls):
    fn = find_def_in(cls, "_fill_constructor_arguments_with_fields")
    outer = _one(_for_loops(fn, "wrapper", "wrappers"), "_fill: `for wrapper in wrappers`")
    ob = clean(outer.body)
    if len(ob) != 1 or not (isinstance(ob[0], ast.For) and unparse(ob[0].target) == "field" and unparse(ob[0].iter) == "wrapper.fields"):
        raise Unrecognised("_fill: the outer loop must contain exactly `for field in wrapper.fields`")
    body = clean(ob[0].body)
    skips, i = [], 0
    while i < len(body) and _is_continue_if(body[i]):
        s = body[i]
        if len(clean(s.body)) != 1:
            raise Unrecognised("_fill: a skip test does more than `continue`")
        t = unparse(s.test)
        if t not in POST_TESTS:
            raise Unrecognised(f"_fill: skip test `{t}`")
        skips.append(POST_TESTS[t])
        i += 1
    rest = body[i:]
    if any(_has(s, ast.Continue) or _has(s, ast.Break) for s in rest):
        raise Unrecognised("_fill: continue/break after the leading skip tests")
    rt = [unparse(s) for s in rest]
    if not rt or rt[0] != "values = parsed_arg_values.pop(field.dest, field.default)":
        raise Unrecognised(f"_fill: the statement that consumes the namespace entry: {rt[:1]}")
    whole = [unparse(s) for s in clean(fn.body)]
    if "parsed_arg_values = vars(parsed_args)" not in whole:
        raise Unrecognised("_fill: parsed_arg_values is not the namespace's own dict")
    if "leftover_args = argparse.Namespace(**parsed_arg_values)" not in whole or whole[-1] != "return (leftover_args, constructor_arguments)":
        raise Unrecognised("_fill: what is returned")
    return skips


def _setup_skips(dw):
    fn = find_def_in(dw, "add_arguments")
    loop = _one(_for_loops(fn, "wrapped_field", "self.fields"), "DataclassWrapper.add_arguments: field loop")
    body = clean(loop.body)
    skips = []
    for s in body:
        if not _has(s, ast.Continue):
            continue
        if not _is_continue_if(s):
            raise Unrecognised("DataclassWrapper.add_arguments: `continue` in an unknown position")
        t = unparse(s.test)
        if t not in SETUP_TESTS:
            raise Unrecognised(f"DataclassWrapper.add_arguments: skip test `{t}`")
        if SETUP_TESTS[t] == "SkSubparser":
            if [unparse(x) for x in clean(s.body)] != ["wrapped_field.add_subparsers(parser)", "continue"]:
                raise Unrecognised("DataclassWrapper.add_arguments: sub-command branch")
        elif len(clean(s.body)) != 1:
            raise Unrecognised("DataclassWrapper.add_arguments: a skip test does more than `continue`")
        skips.append(SETUP_TESTS[t])
    if any(_has(s, ast.Break) or _has(s, ast.Return) for s in body):
        raise Unrecognised("DataclassWrapper.add_arguments: break/return in the field loop")
    if unparse(body[-1]) != "_ = group.add_argument(*wrapped_field.option_strings, **arg_options)":
        raise Unrecognised("DataclassWrapper.add_arguments: the add_argument statement")
    return skips


def _wrapper_skips(dw):
    fn = find_def_in(dw, "__init__")
    loop = _one(_for_loops(fn, "field", "dataclass_fields"), "DataclassWrapper.__init__: field loop")
    if unparse(_one([n for n in ast.walk(fn) if isinstance(n, ast.AnnAssign) and unparse(n.target) == "dataclass_fields"],
                    "dataclass_fields").value) != "_get_dataclass_fields(dataclass)":
        raise Unrecognised("DataclassWrapper.__init__: dataclass_fields")
    body = clean(loop.body)
    skips = []
    conts = [s for s in body if _has(s, ast.Continue)]
    for s in conts:
        if not _is_continue_if(s) or len(clean(s.body)) != 1:
            raise Unrecognised("DataclassWrapper.__init__: `continue` in an unknown position")
        tests = s.test.values if isinstance(s.test, ast.BoolOp) and isinstance(s.test.op, ast.Or) else [s.test]
        for t in tests:
            if unparse(t) not in WRAP_TESTS:
                raise Unrecognised(f"DataclassWrapper.__init__: skip test `{unparse(t)}`")
            skips.append(WRAP_TESTS[unparse(t)])
    if any(_has(s, ast.Break) for s in body):
        raise Unrecognised("DataclassWrapper.__init__: break in the field loop")
    chains = [s for s in body if isinstance(s, ast.If) and unparse(s.test) == "utils.is_subparser_field(field) or utils.is_choice(field)"]
    chain = _one(chains, "DataclassWrapper.__init__: the if/elif chain that creates FieldWrappers / child wrappers")
    if chain is not body[-1]:
        raise Unrecognised("DataclassWrapper.__init__: statements after the if/elif chain")
    arms, els = if_chain(chain)
    child = False
    for test, b in arms + [(None, els)]:
        txt = " ".join(unparse(x) for x in b)
        is_field = "self.fields.append(field_wrapper)" in txt
        is_child = "self._children.append(child_wrapper)" in txt
        if is_field == is_child:
            raise Unrecognised(f"DataclassWrapper.__init__: arm `{unparse(test) if test is not None else 'else'}` neither/both field and child")
        child = child or is_child
    if "self._children.append" in " ".join(unparse(x) for x in els):
        raise Unrecognised("DataclassWrapper.__init__: the else arm must create a FieldWrapper")
    if child:
        skips.append("SkChild")
    return skips


# ---- post-processing order, collision rule ----------------------------------------------------------


def _postprocessing(cls):
    fn = find_def_in(cls, "_postprocessing")
    texts = [unparse(s) for s in clean(fn.body)]
    want_tail = [
        "wrappers = _flatten_wrappers(self._wrappers)",
        "constructor_arguments = self.constructor_arguments.copy()",
        "for wrapper in wrappers:\n    for destination in wrapper.destinations:\n        constructor_arguments.setdefault(destination, {})",
        "parsed_args, constructor_arguments = self._fill_constructor_arguments_with_fields(parsed_args, wrappers=wrappers, initial_constructor_arguments=constructor_arguments)",
        "parsed_args = self._instantiate_dataclasses(parsed_args, wrappers=wrappers, constructor_arguments=constructor_arguments)",
        "return parsed_args",
    ]
    if texts[-len(want_tail):] != want_tail:
        raise Unrecognised("_postprocessing: fill / instantiate sequence changed")
    head = texts[:-len(want_tail)]
    if head == ["self._remove_subgroups_from_namespace(parsed_args)"]:
        first = True
    elif head == []:
        first = False
    else:
        raise Unrecognised(f"_postprocessing: statements before the fill step: {head}")
    rm = find_def_in(cls, "_remove_subgroups_from_namespace")
    want = [
        "subgroup_fields = _get_subgroup_fields(self._wrappers)",
        "if not subgroup_fields:\n    return",
        "if not hasattr(parsed_args, 'subgroups'):\n    parsed_args.subgroups = {}",
        "for dest in subgroup_fields:\n    chosen_value = getattr(parsed_args, dest)\n    parsed_args.subgroups[dest] = chosen_value\n    delattr(parsed_args, dest)",
    ]
    if [unparse(s) for s in clean(rm.body)] != want:
        raise Unrecognised("_remove_subgroups_from_namespace body changed")
    return first


def _collision(cls):
    fn = find_def_in(cls, "_instantiate_dataclasses")
    srt = [unparse(n.value) for n in ast.walk(fn) if isinstance(n, ast.AnnAssign) and unparse(n.target) == "sorted_dc_wrappers"]
    if srt != ["sorted(wrappers, key=lambda w: w.nesting_level, reverse=True)"]:
        raise Unrecognised("_instantiate_dataclasses: order of instantiation")
    loop = _one(_for_loops(fn, "destination", "dc_wrapper.destinations"), "_instantiate_dataclasses: destination loop")
    chains = [s for s in clean(loop.body) if isinstance(s, ast.If)
              and unparse(s.test) == "argparse.SUPPRESS in dc_wrapper.defaults and value_for_dataclass_field is None"]
    chain = _one(chains, "_instantiate_dataclasses: the chain that stores the value")
    if chain is not clean(loop.body)[-1]:
        raise Unrecognised("_instantiate_dataclasses: statements after the storing chain")
    arms, els = if_chain(chain)
    tests = [unparse(t) for t, _ in arms]
    if tests != ["argparse.SUPPRESS in dc_wrapper.defaults and value_for_dataclass_field is None",
                 "dc_wrapper.parent is not None", "not hasattr(parsed_args, destination)"]:
        raise Unrecognised(f"_instantiate_dataclasses: tests {tests}")
    if arms[0][1]:
        raise Unrecognised("_instantiate_dataclasses: the suppressed arm does something")
    b1 = [unparse(s) for s in arms[1][1]]
    if b1 != ["parent_key, attr = utils.split_dest(destination)", "constructor_arguments[parent_key][attr] = value_for_dataclass_field"]:
        raise Unrecognised("_instantiate_dataclasses: nested arm")
    if [unparse(s) for s in arms[2][1]] != ["setattr(parsed_args, destination, value_for_dataclass_field)"]:
        raise Unrecognised("_instantiate_dataclasses: fresh-attribute arm")
    e = list(els)
    if e and unparse(e[0]) == "existing = getattr(parsed_args, destination)":
        e = e[1:]
    if len(e) == 1 and isinstance(e[0], ast.If) and unparse(e[0].test) == "dc_wrapper.dest in self._defaults":
        ok_body = [unparse(s) for s in clean(e[0].body)]
        no_body = clean(e[0].orelse)
        if ok_body != ["setattr(parsed_args, destination, value_for_dataclass_field)"] or len(no_body) != 1 or not isinstance(no_body[0], ast.Raise):
            raise Unrecognised("_instantiate_dataclasses: collision arm")
        return _exc_name(no_body[0]), True
    if len(e) == 1 and isinstance(e[0], ast.Raise):
        return _exc_name(e[0]), False
    raise Unrecognised("_instantiate_dataclasses: collision arm")


def _exc_name(node):
    exc = node.exc
    if isinstance(exc, ast.Call):
        exc = exc.func
    if isinstance(exc, ast.Name):
        return exc.id
    if isinstance(exc, ast.Attribute):
        return exc.attr
    raise Unrecognised(f"raise of {unparse(node)[:60]}")


# ---- sites that used to be tied by the sampled correspondence only (tie audit) ------------------------


SUBGROUP_TESTS = {"field.is_subgroup": "SkSubgroup", "field.is_subgroup and field.field.init": None}


def _subgroup_select(tree):
    """_get_subgroup_fields: which fields of which wrappers are subgroup choices, and under which key."""
    fn = find_def(tree, "_get_subgroup_fields")
    body = clean(fn.body)
    texts = [unparse(x) for x in body]
    if len(body) != 4 or texts[0] != "subgroup_fields = {}" or texts[1] != "all_wrappers = _flatten_wrappers(wrappers)" \
            or texts[3] != "return subgroup_fields":
        raise Unrecognised(f"_get_subgroup_fields: statements {texts}")
    outer = body[2]
    if not (isinstance(outer, ast.For) and unparse(outer.target) == "wrapper" and unparse(outer.iter) == "all_wrappers"):
        raise Unrecognised("_get_subgroup_fields: outer loop")
    ob = clean(outer.body)
    if len(ob) != 1 or not (isinstance(ob[0], ast.For) and unparse(ob[0].target) == "field" and unparse(ob[0].iter) == "wrapper.fields"):
        raise Unrecognised("_get_subgroup_fields: inner loop must be `for field in wrapper.fields`")
    ib = clean(ob[0].body)
    if len(ib) != 1 or not isinstance(ib[0], ast.If) or ib[0].orelse:
        raise Unrecognised("_get_subgroup_fields: selection test")
    t = unparse(ib[0].test)
    if SUBGROUP_TESTS.get(t) is None:
        raise Unrecognised(f"_get_subgroup_fields: selection test `{t}`")
    stmts = [unparse(x) for x in clean(ib[0].body) if not isinstance(x, ast.Assert)]
    if stmts != ["subgroup_fields[field.dest] = field"]:
        raise Unrecognised(f"_get_subgroup_fields: what is recorded: {stmts}")
    return [SUBGROUP_TESTS[t]]


def _suppress_arm(cls):
    """_instantiate_dataclasses: what a wrapper registered with default=SUPPRESS yields."""
    fn = find_def_in(cls, "_instantiate_dataclasses")
    loop = _one(_for_loops(fn, "destination", "dc_wrapper.destinations"), "_instantiate_dataclasses: destination loop")
    body = clean(loop.body)
    texts = [unparse(x) for x in body]
    if "constructor_args = constructor_arguments.pop(destination)" not in texts or "constructor = dc_wrapper.dataclass_fn" not in texts:
        raise Unrecognised("_instantiate_dataclasses: constructor / constructor_args")
    arms = [x for x in body if isinstance(x, ast.If) and unparse(x.test) == "argparse.SUPPRESS in dc_wrapper.defaults"]
    arm = _one(arms, "_instantiate_dataclasses: the SUPPRESS arm")
    if [unparse(x) for x in clean(arm.orelse)] != ["value_for_dataclass_field = _create_dataclass_instance(dc_wrapper, constructor, constructor_args)"]:
        raise Unrecognised("_instantiate_dataclasses: how the instance is created")
    b = [unparse(x) for x in clean(arm.body)]
    if b == ["if constructor_args == {}:\n    value_for_dataclass_field = None\nelse:\n    value_for_dataclass_field = constructor_args"]:
        return True
    if b == ["value_for_dataclass_field = constructor_args"]:
        return False
    raise Unrecognised(f"_instantiate_dataclasses: body of the SUPPRESS arm {b}")


def _set_defaults(cls):
    """set_defaults: entries for existing wrappers are routed to the wrapper, the rest goes to argparse; _add_arguments keeps
    an earlier parser-level entry in parser._defaults."""
    fn = find_def_in(cls, "set_defaults")
    body = clean(fn.body)
    if unparse(body[-1]) != "super().set_defaults(**kwargs)":
        raise Unrecognised("set_defaults: the remaining keywords must go to super().set_defaults(**kwargs)")
    loops = [x for x in body if isinstance(x, ast.For) and unparse(x.target) == "wrapper" and unparse(x.iter) == "self._wrappers"]
    loop = _one(loops, "set_defaults: loop over self._wrappers")
    lb = clean(loop.body)
    if len(lb) != 1 or not isinstance(lb[0], ast.If) or unparse(lb[0].test) != "wrapper.dest in kwargs" or lb[0].orelse:
        raise Unrecognised("set_defaults: routing test")
    inner = [unparse(x) for x in clean(lb[0].body)]
    if "wrapper.set_default(default_for_dataclass)" not in inner:
        raise Unrecognised("set_defaults: the wrapper does not receive the entry")
    pops = [n for n in ast.walk(fn) if isinstance(n, ast.Call) and unparse(n.func) in ("kwargs.pop", "kwargs.__delitem__")]
    dels = [n for n in ast.walk(fn) if isinstance(n, ast.Delete)]
    if dels or len(pops) > 1:
        raise Unrecognised("set_defaults: keywords removed in an unknown way")
    if pops:
        if inner[-1] != "kwargs.pop(wrapper.dest)":
            raise Unrecognised("set_defaults: position of kwargs.pop(wrapper.dest)")
        routes = True
    else:
        routes = False
    # nothing between the loop and the super() call may put keys back / take keys away
    idx = body.index(loop)
    between = [unparse(x) for x in body[idx + 1:-1]]
    if between != ["self.constructor_arguments = dict_union(self.constructor_arguments, kwarg_defaults_set_in_dataclasses, "
                   "dict_factory=lambda: defaultdict(dict))"]:
        raise Unrecognised(f"set_defaults: statements before super().set_defaults: {between}")
    add = find_def_in(cls, "_add_arguments")
    ifs = [x for x in clean(add.body) if isinstance(x, ast.If) and unparse(x.test) == "new_wrapper.dest in self._defaults"]
    a = _one(ifs, "_add_arguments: use of an earlier parser-level default")
    if [unparse(x) for x in clean(a.body)] != ["new_wrapper.set_default(self._defaults[new_wrapper.dest])"] or a.orelse:
        raise Unrecognised("_add_arguments: an earlier parser-level default must stay in parser._defaults")
    return routes


PREPROCESSING = [
    "if self._preprocessing_done:\n    return",
    "FieldWrapper.add_dash_variants = self.add_option_string_dash_variants",
    "FieldWrapper.argument_generation_mode = self.argument_generation_mode",
    "FieldWrapper.nested_mode = self.nested_mode",
    "args = list(args)",
    "wrapped_dataclasses = self._wrappers.copy()",
    "wrapped_dataclasses = self._conflict_resolver.resolve_and_flatten(wrapped_dataclasses)",
    "wrapped_dataclasses, chosen_subgroups = self._resolve_subgroups(wrappers=wrapped_dataclasses, args=args, namespace=namespace)",
    "wrapped_dataclasses = _flatten_wrappers(wrapped_dataclasses)",
    "for wrapped_dataclass in wrapped_dataclasses:\n    wrapped_dataclass.add_arguments(parser=self)",
    "self._wrappers = wrapped_dataclasses",
    "self._preprocessing_done = True",
]


def _setup(cls, site):
    """_preprocessing: runs once; registers the arguments of exactly the wrappers that post-processing later walks
    (self._wrappers := the flattened list whose add_arguments were called)."""
    fn = find_def_in(cls, "_preprocessing")
    body = clean(fn.body)
    texts = []
    for x in body:
        if isinstance(x, ast.For) and unparse(x.target) == "parent":
            if site != "PPreprocess":
                raise Unrecognised("_preprocessing: loop over parents")
            continue
        if isinstance(x, ast.For):
            x = ast.For(target=x.target, iter=x.iter, body=clean(x.body), orelse=x.orelse, lineno=0, col_offset=0)
        texts.append(unparse(x))
    optional = set(PREPROCESSING[1:4])   # re-asserting the class-level settings is behaviour-neutral for C09
    if [t for t in texts if t not in optional] != [t for t in PREPROCESSING if t not in optional]:
        raise Unrecognised("_preprocessing: statements changed: " + " | ".join(texts)[:400])
    return True


def _config_default(init, cls):
    """Does a parser built without config keywords declare a --config_path argument by itself?"""
    d = kw_defaults(init)
    for k in ("add_config_path_arg", "config_path"):
        if k not in d:
            raise Unrecognised(f"ArgumentParser.__init__: keyword {k}")
    texts = [unparse(x) for x in clean(init.body)]
    if "self.add_config_path_arg = add_config_path_arg" not in texts \
            or "self.config_path = Path(config_path) if isinstance(config_path, str) else config_path" not in texts:
        raise Unrecognised("ArgumentParser.__init__: config_path / add_config_path_arg attributes")
    cp = unparse(d["config_path"])
    ac = unparse(d["add_config_path_arg"])
    if cp != "None":
        raise Unrecognised(f"ArgumentParser.__init__: config_path default {cp}")
    rule = "if add_config_path_arg is None:\n    add_config_path_arg = bool(config_path)"
    if ac == "None":
        if rule not in texts:
            raise Unrecognised("ArgumentParser.__init__: rule for add_config_path_arg=None")
        by_default = False
    elif ac in ("False", "True"):
        by_default = ac == "True"
    else:
        raise Unrecognised(f"ArgumentParser.__init__: add_config_path_arg default {ac}")
    pk = find_def_in(cls, "parse_known_args")
    guards = [unparse(x.test) for x in clean(pk.body) if isinstance(x, ast.If)]
    if "self.config_path" not in guards or "self.add_config_path_arg" not in guards:
        raise Unrecognised("parse_known_args: the config-file steps are no longer guarded by config_path / add_config_path_arg")
    return by_default


def _generated_dest(fw_tree):
    """FieldWrapper.get_arg_options: the action's dest is the field's (dotted) dest; custom options are merged last."""
    fn = find_def(fw_tree, "get_arg_options", cls="FieldWrapper")
    hits = []
    for n in ast.walk(fn):
        if isinstance(n, ast.Assign) and unparse(n.targets[0]) == "_arg_options['dest']":
            hits.append(unparse(n.value))
    if hits != ["self.dest"]:
        raise Unrecognised(f"get_arg_options: dest is set from {hits}")
    ifs = [x for x in clean(fn.body) if isinstance(x, ast.If) and unparse(x.test) == "not self.field.metadata.get('positional')"]
    i = _one(ifs, "get_arg_options: positional test")
    if "_arg_options['dest'] = self.dest" not in [unparse(x) for x in clean(i.body)]:
        raise Unrecognised("get_arg_options: dest must be set for every non-positional field")
    osf = find_def(fw_tree, "option_strings", cls="FieldWrapper")
    rets = [unparse(n.value) for n in ast.walk(osf) if isinstance(n, ast.Return) and n.value is not None]
    if "[self.dest]" not in rets:
        raise Unrecognised("option_strings: a positional field is registered under another name than its dest")
    return True


# ---- add_argument_group, add_argument, parse_known_args ----------------------------------------------


def _group_forward(cls):
    fn = find_def_in(cls, "add_argument_group")
    names = [a.arg for a in fn.args.args]
    if names != ["self", "title", "description", "prefix_chars", "argument_default", "conflict_handler"]:
        raise Unrecognised(f"add_argument_group parameters {names}")
    if any(unparse(v) != "None" for v in kw_defaults(fn).values()):
        raise Unrecognised("add_argument_group parameter defaults")
    body = clean(fn.body)
    if len(body) != 1 or not isinstance(body[0], ast.Return) or not isinstance(body[0].value, ast.Call) \
            or unparse(body[0].value.func) != "super().add_argument_group" or body[0].value.args:
        raise Unrecognised("add_argument_group body")
    kws = {k.arg: k.value for k in body[0].value.keywords}
    if set(kws) != {"title", "description", "prefix_chars", "argument_default", "conflict_handler"}:
        raise Unrecognised(f"add_argument_group forwards {sorted(kws)}")
    if unparse(kws["title"]) != "title" or unparse(kws["description"]) != "description":
        raise Unrecognised("add_argument_group title/description")
    out = []
    for k in ("prefix_chars", "argument_default", "conflict_handler"):
        t = unparse(kws[k])
        if t == f"{k} or self.{k}":
            out.append("FwdOr")
        elif t in (f"{k} if {k} is not None else self.{k}", f"self.{k} if {k} is None else {k}"):
            out.append("FwdIfNone")
        else:
            raise Unrecognised(f"add_argument_group: {k}={t}")
    return out


def _pass_through(cls):
    fn = find_def_in(cls, "add_argument")
    if [unparse(s) for s in clean(fn.body)] != ["return super().add_argument(*name_or_flags, **kwargs)"]:
        raise Unrecognised("add_argument is not a pure pass-through")
    pk = find_def_in(cls, "parse_known_args")
    texts = [unparse(s) for s in clean(pk.body)]
    seq = ["self._preprocessing(args=args, namespace=namespace)",
           "parsed_args, unparsed_args = super().parse_known_args(args, namespace)",
           "parsed_args = self._postprocessing(parsed_args)",
           "return (parsed_args, unparsed_args)"]
    pos = []
    for s in seq:
        if texts.count(s) != 1:
            raise Unrecognised(f"parse_known_args: `{s}` not found exactly once")
        pos.append(texts.index(s))
    if pos != sorted(pos) or pos[-1] != len(texts) - 1:
        raise Unrecognised("parse_known_args: order of set-up / argparse / post-processing")
    between = texts[pos[1] + 1:pos[2]]
    if len(between) > 1 or (between and not between[0].startswith("if unparsed_args and self._subparsers and attempt_to_reorder:")):
        raise Unrecognised("parse_known_args: statements between argparse and post-processing")
    d = kw_defaults(pk)
    if unparse(d.get("attempt_to_reorder", ast.Constant(None))) != "False":
        raise Unrecognised("parse_known_args: attempt_to_reorder default")


def emit(repo: str) -> str:
    pt = parse(repo, "simple_parsing/parsing.py")
    cls = find_class(pt, "ArgumentParser")
    bases = [unparse(b) for b in cls.bases]
    if bases != ["argparse.ArgumentParser"]:
        raise Unrecognised(f"ArgumentParser bases {bases}")
    overridden = sorted(n.name for n in cls.body if isinstance(n, ast.FunctionDef))
    argparse_api = {"parse_args", "parse_intermixed_args", "parse_known_intermixed_args", "_parse_known_args", "add_mutually_exclusive_group",
                    "_add_action", "_add_container_actions", "_get_optional_actions", "_get_positional_actions", "error", "exit",
                    "_get_values", "_get_value", "_match_argument", "_parse_optional", "add_subparsers", "register"}
    clash = sorted(set(overridden) & argparse_api)
    if clash:
        raise Unrecognised(f"ArgumentParser now overrides argparse internals {clash}")
    init, fwd_parents, fwd_help, own_help, init_texts = _constructor(cls)
    site = _parents_site(cls, init, fwd_parents, init_texts)
    _pass_through(cls)
    post_skips = _post_skips(cls)
    sg_first = _postprocessing(cls)
    exc, dfl_ok = _collision(cls)
    fp, fd, fh = _group_forward(cls)
    dw = find_class(parse(repo, "simple_parsing/wrappers/dataclass_wrapper.py"), "DataclassWrapper")
    setup_skips = _setup_skips(dw)
    wrapper_skips = _wrapper_skips(dw)
    sgsel = _subgroup_select(pt)
    sup_none = _suppress_arm(cls)
    routes = _set_defaults(cls)
    setup_once = _setup(cls, site)
    config_by_default = _config_default(init, cls)
    gen_dest = _generated_dest(parse(repo, "simple_parsing/wrappers/field_wrapper.py"))

    def sl(xs):
        return "[" + "; ".join(xs) + "]"

    b = lambda x: "true" if x else "false"  # noqa: E731
    return (
        "From SPV Require Import Base.Str Model.Coexist.\nOpen Scope string_scope.\n"
        "(* ArgumentParser.__init__ *)\n"
        f"Definition super_parents_forwarded_gen : bool := {b(fwd_parents)}.\n"
        f"Definition super_add_help_forwarded_gen : bool := {b(fwd_help)}.\n"
        f"Definition own_help_block_gen : bool := {b(own_help)}.\n"
        "Definition help_installed_gen (add_help : bool) : bool :=\n"
        "  (super_add_help_forwarded_gen && add_help) || (own_help_block_gen && add_help).\n"
        f"Definition parents_site_gen : psite := {site}.\n"
        "Definition parents_installed_gen : bool := installed parents_site_gen.\n"
        "(* the three field loops *)\n"
        f"Definition wrapper_skips_gen : list skipc := {sl(wrapper_skips)}.\n"
        f"Definition setup_skips_gen : list skipc := {sl(setup_skips)}.\n"
        f"Definition post_skips_gen : list skipc := {sl(post_skips)}.\n"
        f"Definition subgroups_removed_first_gen : bool := {b(sg_first)}.\n"
        "(* _get_subgroup_fields; the SUPPRESS arm of _instantiate_dataclasses; set_defaults routing *)\n"
        f"Definition subgroup_select_gen : list skipc := {sl(sgsel)}.\n"
        f"Definition suppress_empty_none_gen : bool := {b(sup_none)}.\n"
        f"Definition set_defaults_routes_gen : bool := {b(routes)}.\n"
        "(* shape facts: _preprocessing registers once, exactly the wrappers post-processing walks; the action's dest is the\n"
        "   field's dest; a parser built without config keywords declares no argument of its own *)\n"
        f"Definition setup_once_same_wrappers_gen : bool := {b(setup_once)}.\n"
        f"Definition generated_dest_is_field_dest_gen : bool := {b(gen_dest)}.\n"
        f"Definition config_arg_by_default_gen : bool := {b(config_by_default)}.\n"
        "(* _instantiate_dataclasses: a namespace attribute already sits at the destination *)\n"
        f"Definition collision_err_gen : err := Raise \"{exc}\".\n"
        f"Definition collision_defaults_overwrite_gen : bool := {b(dfl_ok)}.\n"
        "(* add_argument_group *)\n"
        f"Definition group_prefix_fwd_gen : fwd := {fp}.\n"
        f"Definition group_default_fwd_gen : fwd := {fd}.\n"
        f"Definition group_handler_fwd_gen : fwd := {fh}.\n"
        "(* the model instantiated with the regenerated facts *)\n"
        "Definition w_fields_gen := w_fields wrapper_skips_gen.\n"
        "Definition pairs_gen := pairs wrapper_skips_gen.\n"
        "Definition registered_gen := registered wrapper_skips_gen setup_skips_gen.\n"
        "Definition reg_dests_gen := reg_dests wrapper_skips_gen setup_skips_gen.\n"
        "Definition generated_gen := generated wrapper_skips_gen setup_skips_gen.\n"
        "Definition subgroup_dests_gen := subgroup_dests wrapper_skips_gen subgroup_select_gen.\n"
        "Definition remove_subgroups_gen := remove_subgroups wrapper_skips_gen subgroups_removed_first_gen subgroup_select_gen.\n"
        "Definition fill_gen := fill wrapper_skips_gen post_skips_gen.\n"
        "Definition instantiate_gen := instantiate wrapper_skips_gen post_skips_gen collision_err_gen\n"
        "  collision_defaults_overwrite_gen suppress_empty_none_gen.\n"
        "Definition post_gen := post wrapper_skips_gen post_skips_gen subgroups_removed_first_gen collision_err_gen\n"
        "  collision_defaults_overwrite_gen subgroup_select_gen suppress_empty_none_gen.\n"
        "Definition default_keys_gen := default_keys set_defaults_routes_gen.\n"
        "Definition sp_known_gen := sp_known wrapper_skips_gen setup_skips_gen post_skips_gen subgroups_removed_first_gen\n"
        "  collision_err_gen collision_defaults_overwrite_gen parents_site_gen subgroup_select_gen suppress_empty_none_gen\n"
        "  set_defaults_routes_gen.\n"
        "Definition sp_parse_args_gen := sp_parse_args wrapper_skips_gen setup_skips_gen post_skips_gen subgroups_removed_first_gen\n"
        "  collision_err_gen collision_defaults_overwrite_gen parents_site_gen subgroup_select_gen suppress_empty_none_gen\n"
        "  set_defaults_routes_gen.\n"
        "Definition ap_known_gen := ap_known wrapper_skips_gen setup_skips_gen.\n"
        "Definition sp_group_gen := sp_group group_prefix_fwd_gen group_default_fwd_gen group_handler_fwd_gen.\n"
    )
