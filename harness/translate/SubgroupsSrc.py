"""Subgroup plumbing of ArgumentParser (simple_parsing/parsing.py) dumped as MiniPy blocks (coq/Model/MiniPy.v).
Output: coq/Gen/FactsSubgroupsSrc.v.

  remove_subgroups_src   _remove_subgroups_from_namespace, whole body; `_get_subgroup_fields(self._wrappers)` is an uninterpreted
                         function given by a table (its own text is pinned by translate/Subgroups.py)
  classify_src           the per-field classification inside _resolve_subgroups' second loop: from
                         `subgroup_dict = subgroup_field.subgroup_choices` to the three asserts before `name = ...`
                         (the key read from the pre-parsed namespace, `assert key in subgroup_dict`, frozen instance vs callable);
                         is_dataclass_instance / is_dataclass_type / callable / type are uninterpreted tables,
                         functools.partial(dataclasses.replace, default) is a record
NOT dumped (and why): the rest of _resolve_subgroups works on an object graph - the throw-away argparse parser accumulates
options across rounds, `self._add_arguments(..)` builds a DataclassWrapper, `parent._children.append(new_wrapper)` mutates a
wrapper that is reachable from `wrappers`, the conflict resolver renames in place, `_get_subgroup_fields` walks the descendants
recursively.  What is checked here about it (fail closed): the parameters `args` and `namespace` are never re-bound and every
round parses `args=args, namespace=namespace`; the round loop is `for .. in itertools.count()` left by the single `break` that
follows `if not unresolved_subgroups`."""
from __future__ import annotations

import ast

from .minipy import Ctx, checked_block, method_block
from .pyast import Unrecognised, clean, cstr, find_def, parse, unparse

CONSTS = {"argparse.SUPPRESS": "argparse.SUPPRESS", "dataclasses.MISSING": "dataclasses.MISSING", "dataclasses.replace": "dataclasses.replace"}
FIRST, LAST = "subgroup_dict = subgroup_field.subgroup_choices", "assert is_dataclass_type(dataclass_type)"


def emit(repo: str) -> str:
    mod = parse(repo, "simple_parsing/parsing.py")
    rm = find_def(mod, "_remove_subgroups_from_namespace", cls="ArgumentParser")
    if [a.arg for a in rm.args.args] != ["self", "parsed_args"]:
        raise Unrecognised("_remove_subgroups_from_namespace: parameters")
    # the dict of subgroup fields is used only through `not d` and `for k in d`: the bridge reads it as the list of its keys
    for n in ast.walk(rm):
        if isinstance(n, ast.Name) and n.id == "subgroup_fields" and isinstance(n.ctx, ast.Load):
            ok = any((isinstance(p, ast.UnaryOp) and isinstance(p.op, ast.Not) and p.operand is n) or (isinstance(p, ast.For) and p.iter is n) for p in ast.walk(rm))
            if not ok:
                raise Unrecognised("_remove_subgroups_from_namespace uses subgroup_fields other than by `not ..` and `for dest in ..`")
    rblk, rlocals = method_block(rm, Ctx(objects=True, consts=CONSTS, tables=["_get_subgroup_fields"]))
    rs = find_def(mod, "_resolve_subgroups", cls="ArgumentParser")
    if [a.arg for a in rs.args.args] != ["self", "wrappers", "args", "namespace"]:
        raise Unrecognised("_resolve_subgroups: parameters")
    for n in ast.walk(rs):
        if isinstance(n, ast.Name) and isinstance(n.ctx, (ast.Store, ast.Del)) and n.id in ("args", "namespace"):
            raise Unrecognised(f"_resolve_subgroups re-binds its parameter {n.id}: every round must parse the same command line and namespace")
    parses = [n for n in ast.walk(rs) if isinstance(n, ast.Call) and isinstance(n.func, ast.Attribute) and n.func.attr == "parse_known_args"]
    if len(parses) != 1 or unparse(parses[0]) != "subgroup_choice_parser.parse_known_args(args=args, namespace=namespace)":
        raise Unrecognised("_resolve_subgroups: expected exactly `subgroup_choice_parser.parse_known_args(args=args, namespace=namespace)`")
    loops = [s for s in clean(rs.body) if isinstance(s, ast.For)]
    if len(loops) != 1 or unparse(loops[0].iter) != "itertools.count()" or loops[0].orelse:
        raise Unrecognised("_resolve_subgroups: the round loop is not `for .. in itertools.count()`")
    rounds = clean(loops[0].body)
    breaks = [n for n in ast.walk(loops[0]) if isinstance(n, ast.Break)]
    last = rounds[-1]
    if len(breaks) != 1 or not (isinstance(last, ast.If) and unparse(last.test) == "not unresolved_subgroups" and clean(last.body) and isinstance(clean(last.body)[-1], ast.Break)):
        raise Unrecognised("_resolve_subgroups: the round loop must end with `if not unresolved_subgroups: .. break`")
    inner = [s for s in rounds if isinstance(s, ast.For) and unparse(s.iter) == "list(unresolved_subgroups.items())"]
    if len(inner) != 1 or unparse(inner[0].target) != "(dest, subgroup_field)":
        raise Unrecognised("_resolve_subgroups: the loop over list(unresolved_subgroups.items())")
    body = clean(inner[0].body)
    srcs = [unparse(s) for s in body]
    if srcs.count(FIRST) != 1 or srcs.count(LAST) != 1 or srcs.index(FIRST) != 0:
        raise Unrecognised("_resolve_subgroups: the classification block does not start / end where expected")
    c = Ctx(objects=True, consts=CONSTS, tables=["is_dataclass_instance", "is_dataclass_type", "callable", "type"])
    c.caller_mutated = {}
    cblk = checked_block(body[: srcs.index(LAST) + 1], c)
    return ("From SPV Require Import Base.Str Model.MiniPy.\nOpen Scope string_scope.\n"
            "(* ArgumentParser._remove_subgroups_from_namespace *)\n"
            f"Definition remove_subgroups_src : block :=\n  {rblk}.\n"
            "(* _resolve_subgroups, second loop: the classification of one subgroup field *)\n"
            "Definition classify_src : block :=\n  [" + ";\n   ".join(cblk) + "].\n"
            f"Definition classify_locals : list string := [{'; '.join(cstr(x) for x in c.assigned)}].\n")
