"""Facts for one command-line field: converter tables and decision-chain orders.

Output: coq/Gen/FactsLeaf.v (imports Gen.FactsBool for str2bool_gen)."""
from __future__ import annotations

import ast

from .pyast import Unrecognised, clean, cstr, cstrs, find_def, if_chain, module_assign, parse, pin, unparse


def _chain_tests(fn, first_test):
    """tests of the if/elif chain of `fn` whose first test is `first_test`"""
    for n in ast.walk(fn):
        if isinstance(n, ast.If) and unparse(n.test) == first_test:
            arms, els = if_chain(n)
            return [unparse(t) for t, _ in arms], els
    raise Unrecognised(f"{fn.name}: chain starting with `{first_test}` not found")


def emit(repo: str) -> str:
    fp = parse(repo, "simple_parsing/wrappers/field_parsing.py")
    ut = parse(repo, "simple_parsing/utils.py")
    fw = parse(repo, "simple_parsing/wrappers/field_wrapper.py")

    # parse_enum: what an unknown member name raises
    pe = find_def(fp, "parse_enum")
    inner = [n for n in pe.body if isinstance(n, ast.FunctionDef) and n.name == "_parse_enum"]
    if len(inner) != 1:
        raise Unrecognised("parse_enum._parse_enum")
    body = clean(inner[0].body)
    # since fix e04e845 the converter first returns a value that already is a member (a str-mixin Enum default)
    if body and unparse(body[0]) == "if isinstance(v, enum_type):\n    return v":
        body = body[1:]
    else:
        raise Unrecognised("parse_enum._parse_enum: the member pass-through (fix e04e845) is missing")
    if [unparse(s) for s in body] == ["return enum_type[v]"]:
        miss = "KeyError"
    elif len(body) == 1 and isinstance(body[0], ast.Try):
        t = body[0]
        if [unparse(s) for s in clean(t.body)] != ["return enum_type[v]"] or len(t.handlers) != 1 \
                or unparse(t.handlers[0].type) != "KeyError" or t.orelse or t.finalbody:
            raise Unrecognised("parse_enum: try shape")
        hb = clean(t.handlers[0].body)
        if len(hb) != 1 or not isinstance(hb[0], ast.Raise) or not isinstance(hb[0].exc, ast.Call):
            raise Unrecognised("parse_enum: handler")
        miss = unparse(hb[0].exc.func).split(".")[-1]
    else:
        raise Unrecognised("parse_enum: body of _parse_enum")

    # the primitive table
    tbl = module_assign(fp, "_parsing_fns")
    if unparse(tbl) != "{t: t for t in [str, float, int, bytes]}":
        raise Unrecognised(f"_parsing_fns table: {unparse(tbl)}")
    reg = [unparse(n) for n in fp.body if isinstance(n, ast.Assign) and unparse(n.targets[0]).startswith("_parsing_fns[")]
    if reg != ["_parsing_fns[bool] = str2bool"]:
        raise Unrecognised(f"_parsing_fns registrations {reg}")

    gp = find_def(fp, "get_parsing_fn")
    gp_tests, _ = _chain_tests(gp, "t in _parsing_fns")
    want_gp = ["t in _parsing_fns", "t is Any", "is_tuple(t)", "is_list(t)", "is_union(t)", "is_enum(t)"]
    if gp_tests != want_gp:
        raise Unrecognised(f"get_parsing_fn dispatch order {gp_tests}")

    gc = find_def(ut, "get_argparse_type_for_container")
    gc_src = [unparse(s) for s in clean(gc.body)]
    want_gc = ["T = get_item_type(container_type)", "if T is bool:\n    return str2bool", "if T is Any:\n    return str",
               "if is_enum(T):\n    from simple_parsing.wrappers.field_parsing import parse_enum\n    return parse_enum(T)", "return T"]
    if gc_src != want_gc:
        raise Unrecognised(f"get_argparse_type_for_container body changed: {gc_src}")

    gao = find_def(fw, "get_arg_options", cls="FieldWrapper")
    gao_tests, _ = _chain_tests(gao, "self.is_choice")
    pp = find_def(fw, "postprocess", cls="FieldWrapper")
    pp_tests, _ = _chain_tests(pp, "self.is_enum")

    tf = find_def(fp, "try_functions")
    raises = [unparse(n.exc.func) for n in ast.walk(tf) if isinstance(n, ast.Raise) and isinstance(n.exc, ast.Call)]
    if raises != ["ValueError"]:
        raise Unrecognised(f"try_functions raises {raises}")

    # PINS: small pure helpers whose BODIES the hand model (Model/Leaf.v: parsing_fn, container_conv, container_nargs, convert,
    # postprocess) mirrors; any edit fails closed (see pyast.pin).  The if/elif ORDERS above stay separate facts.
    pins = [
        (find_def(ut, "is_homogeneous_tuple_type"), "is_homogeneous_tuple_type"),   # parsing_fn: homogeneous = all items equal
        (find_def(ut, "get_container_nargs"), "get_container_nargs"),               # container_nargs
        (gc, "get_argparse_type_for_container"),                                    # container_conv
        (pp, "postprocess"),                                                        # postprocess arm bodies
        (pe, "parse_enum"),                                                         # registry keyed by the enum CLASS
        (find_def(fp, "parse_tuple"), "parse_tuple"),                               # KSeq: i-th converter for the i-th token
        (gp, "get_parsing_fn"),
        (tf, "try_functions"),
        (find_def(fp, "parse_union"), "parse_union"),
        (find_def(fp, "parse_optional"), "parse_optional"),
    ]
    pinned = [(name, pin(fn, name)) for fn, name in pins]

    return (
        "From SPV Require Import Base.Str Model.Leaf Gen.FactsBool.\nOpen Scope string_scope.\n"
        + "Definition leaf_pinned_gen : list (string * string) := ["
        + "; ".join(f"({cstr(n)}, {cstr(d)})" for n, d in pinned) + "].\n"
        f"Definition enum_miss_cls_gen : string := {cstr(miss)}.\n"
        f"Definition arg_options_chain_gen : list string := {cstrs(gao_tests)}.\n"
        f"Definition postprocess_chain_gen : list string := {cstrs(pp_tests)}.\n"
        f"Definition parsing_fn_chain_gen : list string := {cstrs(gp_tests)}.\n"
        "Definition convert_gen := convert str2bool_gen enum_miss_cls_gen.\n"
        "Definition convert_all_gen := convert_all str2bool_gen enum_miss_cls_gen.\n"
        "Definition take_values_gen := take_values str2bool_gen enum_miss_cls_gen.\n"
        "Definition leaf_parse_gen := leaf_parse str2bool_gen enum_miss_cls_gen.\n"
    )
