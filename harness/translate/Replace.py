"""Facts for replace(): simple_parsing/replace.py `replace` (statement by statement) and the utils helpers it rests on
(`unflatten_split`, `unflatten`, `flatten`, `flatten_join`).

Regenerated into a `facts` record (coq/Model/Replace.v):
  * the default separator of unflatten_split and of flatten_join,
  * the exception raised when both `changes_dict` and `**changes` are given,
  * the ORDER of the two guards at the top of the field loop (`field.name not in changes` / `not field.init`) and the
    exception raised for a change to an init=False field,
  * the two halves of the recursion condition (value is a dataclass instance / change is a dict),
  * whether left-over keys are still handed to dataclasses.replace (`replace_kwargs.update(changes)`),
  * for replace_subgroups: the keyword, the order of the two guards of ITS field loop, its exception classes, whether a
    dict selection without the keyword KEEPS the current member (`keep_member`), whether left-over selections raise.
Everything else that the hand-written model depends on (the bodies of unflatten/flatten, the pops, the final
dataclasses.replace call, ...) is compared with the exact text the model was written against: any other shape fails closed.

Output: coq/Gen/FactsReplace.v (imports Model.Replace and instantiates it)."""
from __future__ import annotations

import ast

from .pyast import Unrecognised, clean, const, cstr, find_def, if_chain, kw_defaults, parse, unparse


def _exc_name(node):
    if not isinstance(node, ast.Raise) or node.exc is None:
        raise Unrecognised(f"expected a raise, got {unparse(node)[:80]}")
    exc = node.exc
    if isinstance(exc, ast.Call):
        exc = exc.func
    if isinstance(exc, ast.Attribute):
        return exc.attr
    if isinstance(exc, ast.Name):
        return exc.id
    raise Unrecognised(f"raise of {unparse(node)}")


def _expect(stmt, text, what):
    got = unparse(stmt)
    if got != text:
        raise Unrecognised(f"{what}: expected `{text}`, found `{got[:200]}`")


def _body_text(fn):
    return [unparse(s) for s in clean(fn.body)]


UNFLATTEN_BODY = [
    "nested: PossiblyNestedDict[K, V] = {}",
    "for keys, value in flattened.items():\n"
    "    sub_dictionary = nested\n"
    "    for part in keys[:-1]:\n"
    "        assert isinstance(sub_dictionary, dict)\n"
    "        sub_dictionary = sub_dictionary.setdefault(part, {})\n"
    "    assert isinstance(sub_dictionary, dict)\n"
    "    sub_dictionary[keys[-1]] = value",
    "return nested",
]

FLATTEN_BODY = [
    "flattened: dict[tuple[K, ...], V] = {}",
    "for k, v in nested.items():\n"
    "    if isinstance(v, c_abc.Mapping):\n"
    "        for subkeys, subv in flatten(v).items():\n"
    "            collision_key = (k, *subkeys)\n"
    "            assert collision_key not in flattened\n"
    "            flattened[collision_key] = subv\n"
    "    else:\n"
    "        flattened[k,] = v",
    "return flattened",
]


def _sep_default(fn, what):
    d = kw_defaults(fn)
    if "sep" not in d:
        raise Unrecognised(f"{what}: no default for sep")
    sep = const(d["sep"], str)
    if len(sep) != 1 or not (32 <= ord(sep) <= 126):
        raise Unrecognised(f"{what}: separator {sep!r} is not one printable ASCII character")
    return sep


def _utils_facts(utils):
    us = find_def(utils, "unflatten_split")
    if [a.arg for a in us.args.args] != ["flattened", "sep", "recursive"]:
        raise Unrecognised("unflatten_split signature")
    sep = _sep_default(us, "unflatten_split")
    if unparse(kw_defaults(us)["recursive"]) != "False":
        raise Unrecognised("unflatten_split: default of recursive")
    body = _body_text(us)
    if body != ["return unflatten({tuple(key.split(sep)): value for key, value in flattened.items()})"]:
        raise Unrecognised("unflatten_split body: " + " | ".join(body)[:300])
    un = find_def(utils, "unflatten")
    if _body_text(un) != UNFLATTEN_BODY:
        raise Unrecognised("unflatten body changed: " + " | ".join(_body_text(un))[:400])
    fl = find_def(utils, "flatten")
    if _body_text(fl) != FLATTEN_BODY:
        raise Unrecognised("flatten body changed: " + " | ".join(_body_text(fl))[:400])
    fj = find_def(utils, "flatten_join")
    if [a.arg for a in fj.args.args] != ["nested", "sep"]:
        raise Unrecognised("flatten_join signature")
    jsep = _sep_default(fj, "flatten_join")
    body = _body_text(fj)
    if body != ["return {sep.join(keys): value for keys, value in flatten(nested).items()}"]:
        raise Unrecognised("flatten_join body: " + " | ".join(body)[:300])
    return sep, jsep


def _loop_facts(loop):
    if not isinstance(loop, ast.For) or unparse(loop.target) != "field" or unparse(loop.iter) != "dataclasses.fields(obj)" \
            or loop.orelse:
        raise Unrecognised("replace: field loop header: " + unparse(loop)[:120])
    body = clean(loop.body)
    guards = []
    i = 0
    noninit_err = None
    while i < len(body) and isinstance(body[i], ast.If) and not body[i].orelse and len(guards) < 2:
        g = body[i]
        t = unparse(g.test)
        gb = clean(g.body)
        if t == "field.name not in changes":
            if len(gb) != 1 or not isinstance(gb[0], ast.Continue):
                raise Unrecognised("replace: body of the `not in changes` guard")
            guards.append("absent")
        elif t == "not field.init":
            if len(gb) != 1:
                raise Unrecognised("replace: body of the `not field.init` guard")
            noninit_err = _exc_name(gb[0])
            guards.append("noninit")
        else:
            break
        i += 1
    if sorted(guards) != ["absent", "noninit"]:
        raise Unrecognised(f"replace: guards at the top of the field loop are {guards}")
    noninit_first = guards[0] == "noninit"
    rest = body[i:]
    if len(rest) != 3:
        raise Unrecognised("replace: field loop tail has %d statements: %s" % (len(rest), " | ".join(unparse(s) for s in rest)[:300]))
    _expect(rest[0], "field_value = getattr(obj, field.name)", "replace: reading the field")
    cond = rest[1]
    if not isinstance(cond, ast.If):
        raise Unrecognised("replace: recursion test missing")
    tests = cond.test.values if isinstance(cond.test, ast.BoolOp) and isinstance(cond.test.op, ast.And) else [cond.test]
    names = {"is_dataclass_instance(field_value)": "dc", "isinstance(changes[field.name], dict)": "dict"}
    seen = []
    for t in tests:
        k = names.get(unparse(t))
        if k is None or k in seen:
            raise Unrecognised(f"replace: recursion condition `{unparse(cond.test)}`")
        seen.append(k)
    if seen and seen != sorted(seen):  # `dc` is evaluated before `dict` in the model (no observable difference, but be strict)
        raise Unrecognised(f"replace: recursion condition order `{unparse(cond.test)}`")
    then = [unparse(s) for s in clean(cond.body)]
    if then != ["field_changes = changes.pop(field.name)", "new_value = replace(field_value, **field_changes)"]:
        raise Unrecognised("replace: recursive arm: " + " | ".join(then)[:300])
    els = [unparse(s) for s in clean(cond.orelse)]
    if els != ["new_value = changes.pop(field.name)"]:
        raise Unrecognised("replace: plain arm: " + " | ".join(els)[:300])
    _expect(rest[2], "replace_kwargs[field.name] = new_value", "replace: storing the new value")
    return noninit_first, noninit_err, "dc" in seen, "dict" in seen


def _replace_facts(mod):
    fn = find_def(mod, "replace")
    a = fn.args
    if [x.arg for x in a.args] != ["obj", "changes_dict"] or a.vararg is not None or a.kwonlyargs or a.posonlyargs \
            or a.kwarg is None or a.kwarg.arg != "changes":
        raise Unrecognised("replace signature")
    if unparse(kw_defaults(fn).get("changes_dict", ast.Constant(0))) != "None":
        raise Unrecognised("replace: default of changes_dict")
    body = clean(fn.body)
    if len(body) not in (6, 7):
        raise Unrecognised("replace: %d top-level statements: %s" % (len(body), " | ".join(unparse(s)[:40] for s in body)))
    both = body[0]
    if not isinstance(both, ast.If) or unparse(both.test) != "changes_dict and changes" or both.orelse or len(clean(both.body)) != 1:
        raise Unrecognised("replace: both-given test: " + unparse(both)[:160])
    both_err = _exc_name(clean(both.body)[0])
    _expect(body[1], "changes = changes_dict or changes", "replace: choosing the change set")
    _expect(body[2], "changes = unflatten_split(changes)", "replace: unflattening")
    _expect(body[3], "replace_kwargs = {}", "replace: kwargs")
    noninit_first, noninit_err, need_dc, need_dict = _loop_facts(body[4])
    if len(body) == 7:
        _expect(body[5], "replace_kwargs.update(changes)", "replace: left-over keys")
        leftover = True
    else:
        leftover = False
    _expect(body[-1], "return dataclasses.replace(obj, **replace_kwargs)", "replace: final call")
    return both_err, noninit_first, noninit_err, need_dc, need_dict, leftover



# ---- replace_subgroups ---------------------------------------------------------------------------

SUB_SPLIT_OLD = ("if isinstance(selection, dict):\n    value_of_selection = selection.pop(keyword, None)\n    child_selections = selection\n"
                 "else:\n    value_of_selection = selection\n    child_selections = None")
SUB_SPLIT_KEEP = ("if isinstance(selection, dict):\n"
                  "    keep_member = keyword not in selection and is_dataclass_instance(field_value)\n"
                  "    value_of_selection = selection.pop(keyword, None)\n    child_selections = selection\n"
                  "else:\n    keep_member = False\n    value_of_selection = selection\n    child_selections = None")

SUB_LOOP_TAIL = [
    "field_value = getattr(obj, field.name)",
    "field_annotation = get_field_type_from_annotations(obj.__class__, field.name)",
    "new_value = None",
    None,  # the annotation test (exception class extracted)
    "selection = selections.pop(field.name)",
    None,  # splitting the selection (with or without the keep-member test)
    None,  # the resolution chain
    "if child_selections:\n    new_value = replace_subgroups(field_value, child_selections)\nelse:\n    new_value = field_value",
    "replace_kwargs[field.name] = new_value",
]

SUB_CHAIN = [
    ("is_dataclass_type(value_of_selection)", ["field_value = value_of_selection()"]),
    ("is_dataclass_instance(value_of_selection)", ["field_value = copy.deepcopy(value_of_selection)"]),
    ("field.metadata.get('subgroups', None)",
     ["assert isinstance(value_of_selection, str)",
      "subgroup_selection = field.metadata['subgroups'][value_of_selection]",
      "if is_dataclass_instance(subgroup_selection):\n    field_value = subgroup_selection\nelse:\n"
      "    field_value = field.metadata['subgroups'][value_of_selection]()"]),
    ("is_optional(field_annotation) and value_of_selection is None", ["field_value = None"]),
    ("contains_dataclass_type_arg(field_annotation) and value_of_selection is None", ["field_value = field.default_factory()"]),
]

UNFLATTEN_SEL_BODY = [
    "dc = {}",
    "unflatten_those_top_level_keys = set()",
    "for k, v in flattened.items():\n    splited_keys = k.split(sep)\n    if len(splited_keys) >= 2:\n"
    "        unflatten_those_top_level_keys.add(splited_keys[0])",
    "for k, v in flattened.items():\n    keys = k.split(sep)\n    top_level_key = keys[0]\n    rest_keys = keys[1:]\n"
    "    if top_level_key in unflatten_those_top_level_keys:\n        sub_dc = dc.get(top_level_key, {})\n"
    "        if len(rest_keys) == 0:\n            sub_dc[keyword] = v\n        else:\n"
    "            sub_dc['.'.join(rest_keys)] = v\n        dc[top_level_key] = sub_dc\n    else:\n        dc[k] = v",
    "if recursive:\n    for k in unflatten_those_top_level_keys:\n        v = dc.pop(k)\n"
    "        unflatten_v = _unflatten_selection_dict(v, recursive=recursive)\n        dc[k] = unflatten_v",
    "return dc",
]


def _subgroups_facts(mod):
    fn = find_def(mod, "replace_subgroups")
    if [x.arg for x in fn.args.args] != ["obj", "selections"] or unparse(kw_defaults(fn).get("selections", ast.Constant(0))) != "None":
        raise Unrecognised("replace_subgroups signature")
    body = clean(fn.body)
    if len(body) not in (6, 7):
        raise Unrecognised("replace_subgroups: %d top-level statements" % len(body))
    kwa = body[0]
    if not (isinstance(kwa, ast.Assign) and unparse(kwa.targets[0]) == "keyword"):
        raise Unrecognised("replace_subgroups: keyword assignment")
    keyword = const(kwa.value, str)
    _expect(body[1], "if not selections:\n    return obj", "replace_subgroups: empty selections")
    _expect(body[2], "selections = _unflatten_selection_dict(selections, keyword, recursive=False)", "replace_subgroups: unflattening")
    _expect(body[3], "replace_kwargs = {}", "replace_subgroups: kwargs")
    _expect(body[-1], "return dataclasses.replace(obj, **replace_kwargs)", "replace_subgroups: final call")
    leftover_check, leftover_err = False, "ValueError"
    if len(body) == 7:
        lo = body[5]
        if not (isinstance(lo, ast.If) and unparse(lo.test) == "selections" and not lo.orelse and len(clean(lo.body)) == 1):
            raise Unrecognised("replace_subgroups: statement between the loop and the final call: " + unparse(lo)[:160])
        leftover_check, leftover_err = True, _exc_name(clean(lo.body)[0])
    loop = body[4]
    if not isinstance(loop, ast.For) or unparse(loop.target) != "field" or unparse(loop.iter) != "dataclasses.fields(obj)" or loop.orelse:
        raise Unrecognised("replace_subgroups: field loop header")
    lb = clean(loop.body)
    guards, noninit_err, i = [], None, 0
    while i < len(lb) and isinstance(lb[i], ast.If) and not lb[i].orelse and len(guards) < 2:
        t = unparse(lb[i].test)
        gb = clean(lb[i].body)
        if t == "field.name not in selections" and len(gb) == 1 and isinstance(gb[0], ast.Continue):
            guards.append("absent")
        elif t == "not field.init" and len(gb) == 1:
            noninit_err = _exc_name(gb[0])
            guards.append("noninit")
        else:
            break
        i += 1
    if sorted(guards) != ["absent", "noninit"]:
        raise Unrecognised(f"replace_subgroups: guards at the top of the field loop are {guards}")
    rest = lb[i:]
    if len(rest) != len(SUB_LOOP_TAIL):
        raise Unrecognised("replace_subgroups: field loop tail has %d statements" % len(rest))
    nodc_err = invalid_err = None
    for st, want in zip(rest, SUB_LOOP_TAIL):
        if want is not None:
            _expect(st, want, "replace_subgroups: loop statement")
    ann = rest[3]
    if not (isinstance(ann, ast.If) and unparse(ann.test) == "not contains_dataclass_type_arg(field_annotation)"
            and not ann.orelse and len(clean(ann.body)) == 1):
        raise Unrecognised("replace_subgroups: annotation test")
    nodc_err = _exc_name(clean(ann.body)[0])
    split = unparse(rest[5])
    if split not in (SUB_SPLIT_OLD, SUB_SPLIT_KEEP):
        raise Unrecognised("replace_subgroups: splitting the selection: " + split[:300])
    arms, els = if_chain(rest[6])
    got = [(unparse(t), [unparse(x) for x in b]) for t, b in arms]
    keep_member = bool(got) and got[0] == ("keep_member", [])
    if keep_member:
        got = got[1:]
    if keep_member != (split == SUB_SPLIT_KEEP):
        raise Unrecognised("replace_subgroups: keep_member is computed but not used first in the chain (or the reverse)")
    if got != SUB_CHAIN:
        raise Unrecognised("replace_subgroups: resolution chain changed: " + str(got)[:400])
    if len(els) != 1:
        raise Unrecognised("replace_subgroups: final else of the resolution chain")
    invalid_err = _exc_name(els[0])
    us = find_def(mod, "_unflatten_selection_dict")
    if [a.arg for a in us.args.args] != ["flattened", "keyword", "sep", "recursive"]:
        raise Unrecognised("_unflatten_selection_dict signature")
    d = kw_defaults(us)
    if const(d["keyword"], str) != keyword:
        raise Unrecognised("_unflatten_selection_dict: keyword default differs from the one replace_subgroups pops")
    sep = _sep_default(us, "_unflatten_selection_dict")
    if sep != ".":
        raise Unrecognised("_unflatten_selection_dict: sep default is not '.', but rest keys are re-joined with '.'")
    if _body_text(us) != UNFLATTEN_SEL_BODY:
        raise Unrecognised("_unflatten_selection_dict body changed")
    return keyword, sep, guards[0] == "noninit", noninit_err, nodc_err, invalid_err, keep_member, leftover_check, leftover_err


# ---- the small predicates of utils.py, translated whole --------------------------------------------

OBJ_PRIMS = {  # what the three stdlib calls say about an object of kind k (Model/Replace.v okind)
    "dataclasses.is_dataclass(obj)": "p_is_dataclass k",
    "dataclasses.is_dataclass(type(obj))": "p_type_is_dataclass k",
    "inspect.isclass(obj)": "p_isclass k",
}
ANN_PRIMS = {  # typing-level primitives over Model/Replace.v ann
    "is_dataclass_type_or_typevar(t)": "p_is_dc_or_typevar t",
    "is_tuple_or_list_of_dataclasses(t)": "p_list_of_dc t",
    "is_union(t)": "p_is_union t",
    "is_literal(t)": "p_is_literal t",
    "type(None) in get_type_arguments(t)": "existsb p_is_nonetype (p_args t)",
    "None in get_type_arguments(t)": "p_literal_has_none t",
}


def _bexpr(n, prims, selfcall=None):
    if isinstance(n, ast.Constant) and isinstance(n.value, bool):
        return "true" if n.value else "false"
    if isinstance(n, ast.BoolOp):
        op = " && " if isinstance(n.op, ast.And) else " || "
        return "(" + op.join(_bexpr(v, prims, selfcall) for v in n.values) + ")"
    if isinstance(n, ast.UnaryOp) and isinstance(n.op, ast.Not):
        return f"(negb {_bexpr(n.operand, prims, selfcall)})"
    t = unparse(n)
    if t in prims:
        return f"({prims[t]})"
    if selfcall and t == f"any(({selfcall[0]}(arg) for arg in get_type_arguments(t)))":
        # recursion over the arguments of a Union (get_type_arguments of anything else that passes is_union is empty)
        return f"(match t with AUnion args_ => existsb {selfcall[1]} args_ | _ => false end)"
    raise Unrecognised(f"expression `{t[:120]}`")


def _bstmts(body, prims, selfcall, what):
    if not body:
        raise Unrecognised(f"{what}: may fall off the end")
    st, rest = body[0], body[1:]
    if isinstance(st, ast.Return) and st.value is not None:
        return _bexpr(st.value, prims, selfcall)
    if isinstance(st, ast.If):
        then = clean(st.body)
        if not then or not isinstance(then[-1], ast.Return):
            raise Unrecognised(f"{what}: an arm that does not return")
        els = clean(st.orelse)
        return (f"(if {_bexpr(st.test, prims, selfcall)} then {_bstmts(then, prims, selfcall, what)} "
                f"else {_bstmts(els + rest, prims, selfcall, what)})")
    raise Unrecognised(f"{what}: statement `{unparse(st)[:100]}`")


def _predicate(utils, name, arg, prims, selfcall=None):
    fn = find_def(utils, name)
    if [a.arg for a in fn.args.args] != [arg] or fn.decorator_list or fn.args.vararg or fn.args.kwarg or fn.args.kwonlyargs:
        raise Unrecognised(f"{name}: signature / decorators")
    return _bstmts(clean(fn.body), prims, selfcall, name)


ANN_LOOKUP_SHA = "cc6f4932d658c3170e0b1c61c4146ea0c40cf4b0dc1ccc9ad660926216befe52"
ANN_MODULE_NAMES = ["logger", "forward_refs_to_types"]


def _ann_lookup_check(repo):
    """get_field_type_from_annotations is what hands replace_subgroups a field's annotation; the model reads the annotation
    facts off tables keyed by (class, field), i.e. assumes the lookup is a plain function of the class object.  It walks
    frames and calls get_type_hints - not translatable - so its text is pinned and the module may hold no other
    module-level state than the names below (a cache would be one)."""
    import hashlib

    m = parse(repo, "simple_parsing/annotation_utils/get_field_annotations.py")
    names = []
    for n in m.body:
        if isinstance(n, ast.Assign):
            names += [unparse(t) for t in n.targets]
        elif isinstance(n, (ast.AnnAssign, ast.AugAssign)):
            names.append(unparse(n.target))
        elif not isinstance(n, (ast.FunctionDef, ast.Import, ast.ImportFrom, ast.Expr)):
            raise Unrecognised(f"get_field_annotations.py: module-level {type(n).__name__}")
    if names != ANN_MODULE_NAMES:
        raise Unrecognised(f"get_field_annotations.py: module-level names are {names} (new module state?)")
    fn = find_def(m, "get_field_type_from_annotations")
    if [a.arg for a in fn.args.args] != ["some_class", "field_name"] or fn.decorator_list:
        raise Unrecognised("get_field_type_from_annotations: signature / decorators")
    if sum(1 for n in m.body if isinstance(n, ast.FunctionDef) and n.name == fn.name) != 1:
        raise Unrecognised("get_field_type_from_annotations defined more than once")
    for n in ast.walk(fn):
        if isinstance(n, (ast.Global, ast.Nonlocal)):
            raise Unrecognised("get_field_type_from_annotations declares global/nonlocal state")
    text = "\n".join(unparse(x) for x in clean(fn.body))
    if hashlib.sha256(text.encode()).hexdigest() != ANN_LOOKUP_SHA:
        raise Unrecognised("get_field_type_from_annotations: body differs from the text the tables-by-(class, field) assumption "
                           "was checked against")


def _helpers_text(repo, utils):
    inst = _predicate(utils, "is_dataclass_instance", "obj", OBJ_PRIMS)
    typ = _predicate(utils, "is_dataclass_type", "obj", OBJ_PRIMS)
    cdc = _predicate(utils, "contains_dataclass_type_arg", "t", ANN_PRIMS, ("contains_dataclass_type_arg", "contains_dc_gen"))
    opt = _predicate(utils, "is_optional", "t", ANN_PRIMS)
    _ann_lookup_check(repo)
    return (
        "(* utils.is_dataclass_instance / is_dataclass_type / contains_dataclass_type_arg / is_optional, translated whole *)\n"
        f"Definition is_dataclass_instance_gen (k : okind) : bool := {inst}.\n"
        f"Definition is_dataclass_type_gen (k : okind) : bool := {typ}.\n"
        f"Fixpoint contains_dc_gen (t : ann) : bool := {cdc}.\n"
        f"Definition is_optional_gen (t : ann) : bool := {opt}.\n"
        "(* get_field_type_from_annotations: text pinned, no module-level state (checked by the translator) *)\n"
        "Definition ann_lookup_is_plain_function_gen : bool := true.\n"
    )


def _b(x):
    return "true" if x else "false"


def emit(repo: str) -> str:
    utils = parse(repo, "simple_parsing/utils.py")
    mod = parse(repo, "simple_parsing/replace.py")
    sep, jsep = _utils_facts(utils)
    both_err, noninit_first, noninit_err, need_dc, need_dict, leftover = _replace_facts(mod)
    keyword, ssep, s_first, s_noninit_err, s_nodc_err, s_invalid_err, s_keep, s_lo, s_lo_err = _subgroups_facts(mod)
    return (
        "From SPV Require Import Base.Str Model.Replace.\nOpen Scope string_scope.\n"
        f"(* unflatten_split sep={sep!r}, flatten_join sep={jsep!r} *)\n"
        "Definition facts_gen : facts :=\n"
        f"  mkfacts (ascii_of_nat {ord(sep)}) (ascii_of_nat {ord(jsep)}) {cstr(both_err)} {_b(noninit_first)} "
        f"{cstr(noninit_err)} {_b(need_dc)} {_b(need_dict)} {_b(leftover)}.\n"
        "(* the model instantiated with the regenerated facts *)\n"
        "Definition replace_gen := replace facts_gen.\n"
        "Definition replace_call_gen := replace_call facts_gen.\n"
        "Definition unflatten_split_gen := unflatten_split (f_sep facts_gen).\n"
        "Definition flatten_join_gen := flatten_join (f_join_sep facts_gen).\n"
        "(* replace_subgroups *)\n"
        "Definition sfacts_gen : sfacts :=\n"
        f"  mksfacts {cstr(keyword)} (ascii_of_nat {ord(ssep)}) {_b(s_first)} {cstr(s_noninit_err)} {cstr(s_nodc_err)} "
        f"{cstr(s_invalid_err)} {_b(s_keep)} {_b(s_lo)} {cstr(s_lo_err)}.\n"
        "Definition rsub_gen := rsub sfacts_gen.\n"
        "Definition unflatten_selection_gen := unflatten_selection sfacts_gen.\n"
        + _helpers_text(repo, utils)
    )
