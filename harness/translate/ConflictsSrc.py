"""ConflictResolver (simple_parsing/conflicts.py), NONE / EXPLICIT / AUTO: get_conflict, _fix_conflict_explicit, _fix_conflict_auto,
_conflict_exists and the loop of resolve_and_flatten, dumped as MiniPy blocks (coq/Model/MiniPy.v): the regenerated *source* of what
Model/OptStr.v get_conflict / fix_explicit / fix_auto / loop describe.  Output: coq/Gen/FactsConflictsSrc.v.

ALIASING, made explicit: the resolver works on references to FieldWrapper objects (Conflict.wrappers holds the very objects of
wrapper.fields; `field_wrapper.prefix = ..` through one reference is seen through the others).  In the dump a reference IS the
key of the object in ONE store variable FIELDS (key -> object); lists of references are lists of keys (plain values);
`x.attr` for a reference x reads FIELDS[x].attr and `x.prefix = e` updates FIELDS at x.  Which names hold references is declared
per function below (REFS); an attribute read through any other name is an ordinary attribute read (and gets stuck on a key).
`field_wrapper.option_strings` is computed by FieldWrapper.option_strings itself: the dump of that method (the same text as
Gen/FactsOptStrSrc.v) is called as a procedure on the referenced object (SCallRet), so the bridge composes with C10_source_is_model.

Not dumped, and how it enters: resolve_and_flatten's statements before `conflict = self.get_conflict(wrappers_flat)` (copy,
_assert_no_duplicates, _flatten_wrappers, the distinct-dests assert) compute the flat list the model starts from; the
ALWAYS_MERGE arm is `raise MergeNotModelled` (out of scope of C03); messages of exceptions / logs are not modelled; the while loop
is bounded by self.max_attempts (read from __init__), which is also the value of `self.max_attempts` in the environment."""
from __future__ import annotations

import ast

from .minipy import Ctx, checked_block, method_block
from .pyast import Unrecognised, clean, const, cstr, find_def, parse, unparse
from . import OptStrSrc

STORE = "FIELDS"
REFS = {"get_conflict": {"field_wrapper"}, "_fix_conflict_explicit": {"w", "field_wrapper"},
        "_fix_conflict_auto": {"w", "field_wrapper", "first_wrapper", "second_wrapper", "field"},
        "_conflict_exists": {"field"}, "resolve_and_flatten": set()}
# FieldWrapper.option_strings on a referenced object: (variable of the dumped method, attribute of the object)
OPT_INS = [("self.name", "name"), ("self.prefix", "prefix"), ("self.dest", "dest"), ("self.aliases", "aliases"),
           ("FieldWrapper.add_dash_variants", "add_dash_variants"), ("type(self).argument_generation_mode", "argument_generation_mode"),
           ("type(self).nested_mode", "nested_mode"), ("self.field.metadata.get('positional')", "positional")]
START = "conflict = self.get_conflict(wrappers_flat)"


def emit(repo: str) -> str:
    mod = parse(repo, "simple_parsing/conflicts.py")
    fwmod = parse(repo, "simple_parsing/wrappers/field_wrapper.py")
    if OptStrSrc.ATTRS != [v for v, _ in OPT_INS]:
        raise Unrecognised("translate/OptStrSrc.ATTRS changed")
    osfn = find_def(fwmod, "option_strings", cls="FieldWrapper")
    osctx = Ctx(attr_vars=OptStrSrc.ATTRS, enum_prefixes=("DashVariant.", "ArgumentGenerationMode.", "NestedMode."), identity_calls=("DashVariant", "list"))
    os_blk, os_locals = method_block(osfn, osctx)
    os_ins = OPT_INS + [(x, None) for x in os_locals]
    init = find_def(mod, "__init__", cls="ConflictResolver")
    fuel = None
    for n in ast.walk(init):
        if isinstance(n, ast.Assign) and unparse(n.targets[0]) == "self.max_attempts":
            fuel = const(n.value, int)
    if fuel is None or not 0 < fuel < 1000:
        raise Unrecognised("ConflictResolver.__init__ no longer sets self.max_attempts to a small literal")

    def ctx(name, procs=None):
        return Ctx(objects=True, enum_prefixes=("ConflictResolution.",), refs=(STORE, REFS[name]), ref_procs={"option_strings": (os_blk, os_ins)},
                   record_ctors={"Conflict": ["option_string", "wrappers"]}, record_classes=["DataclassWrapper"], message_vars=["message"],
                   unmodelled={"self._fix_conflict_merge": "MergeNotModelled"}, while_fuel=fuel, procs=procs or {})
    fns = {n: find_def(mod, n, cls="ConflictResolver") for n in REFS}
    want = {"get_conflict": ["self", "wrappers"], "_fix_conflict_explicit": ["self", "conflict"], "_fix_conflict_auto": ["self", "conflict"],
            "_conflict_exists": ["self", "all_wrappers"], "resolve_and_flatten": ["self", "wrappers"]}
    for n, fn in fns.items():
        a = fn.args
        if [x.arg for x in a.posonlyargs + a.args] != want[n] or a.vararg or a.kwarg or a.kwonlyargs or a.defaults:
            raise Unrecognised(f"{n}: expected the parameters {want[n]}")
    out = {}
    out["get_conflict"] = method_block(fns["get_conflict"], ctx("get_conflict"))
    out["_conflict_exists"] = method_block(fns["_conflict_exists"], ctx("_conflict_exists"))
    gc = lambda: {"self.get_conflict": (fns["get_conflict"], ctx("get_conflict"), "self")}
    out["_fix_conflict_explicit"] = method_block(fns["_fix_conflict_explicit"], ctx("_fix_conflict_explicit", gc()))
    out["_fix_conflict_auto"] = method_block(fns["_fix_conflict_auto"], ctx("_fix_conflict_auto"))
    # the loop of resolve_and_flatten: from START to the end
    body = clean(fns["resolve_and_flatten"].body)
    srcs = [unparse(s) for s in body]
    if srcs.count(START) != 1:
        raise Unrecognised(f"resolve_and_flatten: expected exactly one `{START}`")
    k = srcs.index(START)
    pre = srcs[:k]
    if len(pre) != 6 or not pre[0].startswith("from simple_parsing.parsing import") or pre[1] != "wrappers = wrappers.copy()" \
            or pre[2] != "_assert_no_duplicates(wrappers)" or pre[3] != "wrappers_flat = _flatten_wrappers(wrappers)" \
            or pre[4] != "dests = [w.dest for w in wrappers_flat]" or not pre[5].startswith("assert len(dests) == len(set(dests))"):
        raise Unrecognised("resolve_and_flatten: the statements before the first get_conflict changed")
    procs = dict(gc())
    procs["self._fix_conflict_explicit"] = (fns["_fix_conflict_explicit"], ctx("_fix_conflict_explicit", gc()), "self")
    procs["self._fix_conflict_auto"] = (fns["_fix_conflict_auto"], ctx("_fix_conflict_auto"), "self")
    procs["self._conflict_exists"] = (fns["_conflict_exists"], ctx("_conflict_exists"), "self")
    rc = ctx("resolve_and_flatten", procs)
    rc.caller_mutated = {}
    loop = checked_block(body[k:], rc)
    text = "From SPV Require Import Base.Str Model.MiniPy.\nOpen Scope string_scope.\n"
    text += f"Definition resolver_max_attempts : nat := {fuel}.\n"
    for n in ("get_conflict", "_conflict_exists", "_fix_conflict_explicit", "_fix_conflict_auto"):
        nm = n.lstrip("_")
        text += f"(* ConflictResolver.{n} *)\nDefinition {nm}_src : block :=\n  {out[n][0]}.\n"
        text += f"Definition {nm}_locals : list string := [{'; '.join(cstr(x) for x in out[n][1])}].\n"
    text += ("(* ConflictResolver.resolve_and_flatten from `conflict = self.get_conflict(wrappers_flat)` on *)\n"
             "Definition resolve_src : block :=\n  [" + ";\n   ".join(loop) + "].\n"
             f"Definition resolve_locals : list string := [{'; '.join(cstr(x) for x in rc.assigned)}].\n")
    return text
