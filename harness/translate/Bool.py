"""Facts for boolean flags: utils.TRUE_STRINGS/FALSE_STRINGS, utils.str2bool (compiled to Gallina),
custom_actions.DEFAULT_NEGATIVE_PREFIX, BooleanOptionalAction.__call__ decision table, flag() defaults.

Output: coq/Gen/FactsBool.v  (imports Model.BoolFlag for the table types and instantiates the model)."""
from __future__ import annotations

import ast

from .pyast import (HEADER, Unrecognised, clean, const, cstr, cstrs, find_def, if_chain, kw_defaults, pin_text,
                    module_assign, parse, str_list, unparse)

ARGPARSE_CAUGHT = {"ArgumentTypeError", "ValueError", "TypeError"}  # argparse._get_value turns these into error()


def _exc_name(node):
    exc = node.exc
    if isinstance(exc, ast.Call):
        exc = exc.func
    if isinstance(exc, ast.Attribute):
        return exc.attr
    if isinstance(exc, ast.Name):
        return exc.id
    raise Unrecognised(f"raise of {unparse(node)}")


def _expr(n, env):
    if isinstance(n, ast.Name):
        if n.id not in env:
            raise Unrecognised(f"unknown name {n.id}")
        return n.id
    if isinstance(n, ast.Constant) and isinstance(n.value, bool):
        return "true" if n.value else "false"
    if isinstance(n, ast.Constant) and isinstance(n.value, str):
        return cstr(n.value)
    if isinstance(n, ast.Call) and isinstance(n.func, ast.Attribute) and not n.args and not n.keywords:
        fn = {"strip": "strip", "lower": "lower", "lstrip": "lstrip", "rstrip": "rstrip"}.get(n.func.attr)
        if fn is None:
            raise Unrecognised(f"method {n.func.attr}")
        return f"({fn} {_expr(n.func.value, env)})"
    if isinstance(n, ast.Compare) and len(n.ops) == 1:
        l, r = _expr(n.left, env), _expr(n.comparators[0], env)
        if isinstance(n.ops[0], ast.In):
            return f"(str_in {l} {r})"
        if isinstance(n.ops[0], ast.NotIn):
            return f"(negb (str_in {l} {r}))"
        if isinstance(n.ops[0], ast.Eq):
            return f"(String.eqb {l} {r})"
    if isinstance(n, ast.BoolOp):
        op = " && " if isinstance(n.op, ast.And) else " || "
        return "(" + op.join(_expr(v, env) for v in n.values) + ")"
    if isinstance(n, ast.UnaryOp) and isinstance(n.op, ast.Not):
        return f"(negb {_expr(n.operand, env)})"
    raise Unrecognised(f"expression {unparse(n)}")


def _stmts(body, env):
    if not body:
        raise Unrecognised("str2bool may fall off the end")
    s, rest = body[0], body[1:]
    if isinstance(s, ast.Assign) and len(s.targets) == 1 and isinstance(s.targets[0], ast.Name):
        name = s.targets[0].id
        return f"let {name} := {_expr(s.value, env)} in\n  {_stmts(rest, env | {name})}"
    if isinstance(s, ast.Return):
        if s.value is None:
            raise Unrecognised("bare return")
        return f"Some {_expr(s.value, env)}"
    if isinstance(s, ast.Raise):
        if _exc_name(s) not in ARGPARSE_CAUGHT:
            raise Unrecognised(f"str2bool raises {_exc_name(s)}, which argparse does not turn into an error")
        return "None"
    if isinstance(s, ast.If):
        # `if isinstance(raw_value, bool): return raw_value` - not reachable for a string argument
        if unparse(s.test) == "isinstance(raw_value, bool)" and not s.orelse:
            if [unparse(x) for x in clean(s.body)] != ["return raw_value"]:
                raise Unrecognised("bool short-cut of str2bool")
            return _stmts(rest, env)
        arms, els = if_chain(s)
        tail = _stmts(els + rest, env) if (els or rest) else None
        if tail is None:
            raise Unrecognised("if without else at the end of str2bool")
        out = tail
        for test, b in reversed(arms):
            out = f"if {_expr(test, env)} then {_stmts(b + rest, env)}\n  else {out}"
        return out
    raise Unrecognised(f"statement {unparse(s)[:80]}")


def _call_table(fn):
    body = clean(fn.body)
    texts = [unparse(s) for s in body]
    chain = [s for s in body if isinstance(s, ast.If) and unparse(s.test) == "values is None"]
    if len(chain) != 1:
        raise Unrecognised("__call__: decision chain starting with `values is None` not found")
    others = [t for s, t in zip(body, texts) if s is not chain[0]]
    expected_others = [
        "if option_string is None:\n    raise NotImplementedError(\"This action doesn't support positional arguments yet.\")",
        "assert option_string in self.option_strings",
        "used_negative_flag = option_string in self.negative_option_strings",
        "bool_value: bool",
        "setattr(namespace, self.dest, bool_value)",
    ]
    if others != expected_others:
        raise Unrecognised("__call__: statements around the decision chain changed: " + " | ".join(others)[:300])
    arms, els = if_chain(chain[0])
    tests = {"values is None": "TValuesNone", "used_negative_flag": "TUsedNeg",
             "isinstance(values, bool)": "TIsBool", "isinstance(values, str)": "TIsStr"}

    def body_of(b):
        if len(b) != 1:
            raise Unrecognised("__call__: arm with several statements")
        s = b[0]
        t = unparse(s)
        if t == "bool_value = not used_negative_flag":
            return "BNotNeg"
        if t == "bool_value = values":
            return "BValues"
        if t == "bool_value = self.type(values)":
            return "BTypeOfValues"
        if isinstance(s, ast.Raise):
            return f"BRaise {cstr(_exc_name(s))}"
        if isinstance(s, ast.Expr) and isinstance(s.value, ast.Call) and isinstance(s.value.func, ast.Attribute) \
                and unparse(s.value.func.value) == "parser":
            call = s.value
            if call.func.attr == "error":
                return "BReject (Exit 2)"
            if call.func.attr == "exit":
                status = 0
                if call.args:
                    status = const(call.args[0], int)
                for kw in call.keywords:
                    if kw.arg == "status":
                        status = const(kw.value, int)
                return f"BReject (Exit {status})"
        raise Unrecognised(f"__call__: arm body {t[:80]}")

    rows = []
    for test, b in arms:
        k = tests.get(unparse(test))
        if k is None:
            raise Unrecognised(f"__call__: test {unparse(test)}")
        rows.append(f"({k}, {body_of(b)})")
    return "[" + "; ".join(rows) + "]", body_of(els)


def emit(repo: str) -> str:
    utils = parse(repo, "simple_parsing/utils.py")
    ca = parse(repo, "simple_parsing/helpers/custom_actions.py")
    fields = parse(repo, "simple_parsing/helpers/fields.py")
    true_s = str_list(module_assign(utils, "TRUE_STRINGS"))
    false_s = str_list(module_assign(utils, "FALSE_STRINGS"))
    # PIN: the arm of FieldWrapper.get_arg_options that hands a bool field to BooleanOptionalAction together with the
    # conflict prefix (Model/BoolFlag.v takes the positive option's prefix as the negative options' prefix)
    fwt = parse(repo, "simple_parsing/wrappers/field_wrapper.py")
    gao = find_def(fwt, "get_arg_options", cls="FieldWrapper")
    arm = None
    for n in ast.walk(gao):
        if isinstance(n, ast.If):
            for t, b in if_chain(n)[0]:
                if unparse(t) == "utils.is_bool(self.type)":
                    arm = b
    if arm is None:
        raise Unrecognised("get_arg_options: no arm `utils.is_bool(self.type)`")
    bool_arm_pin = pin_text("\n".join(unparse(x) for x in arm) + "\n", "get_arg_options.bool_arm")
    s2b = find_def(utils, "str2bool")
    if [a.arg for a in s2b.args.args] != ["raw_value"]:
        raise Unrecognised("str2bool signature")
    s2b_body = _stmts(clean(s2b.body), {"raw_value", "TRUE_STRINGS", "FALSE_STRINGS"})
    neg_prefix = const(module_assign(ca, "DEFAULT_NEGATIVE_PREFIX"), str)
    cls = [n for n in ca.body if isinstance(n, ast.ClassDef) and n.name == "BooleanOptionalAction"]
    if len(cls) != 1:
        raise Unrecognised("BooleanOptionalAction")
    call = [n for n in cls[0].body if isinstance(n, ast.FunctionDef) and n.name == "__call__"]
    init = [n for n in cls[0].body if isinstance(n, ast.FunctionDef) and n.name == "__init__"]
    if len(call) != 1 or len(init) != 1:
        raise Unrecognised("BooleanOptionalAction.__call__/__init__")
    table, els = _call_table(call[0])
    d = kw_defaults(init[0])
    for k, want in (("negative_prefix", "DEFAULT_NEGATIVE_PREFIX"), ("negative_option", "None"),
                    ("_conflict_prefix", "''"), ("nargs", "'?'"), ("type", "utils.str2bool")):
        if k not in d or unparse(d[k]) != want:
            raise Unrecognised(f"BooleanOptionalAction.__init__ default of {k}: {unparse(d[k]) if k in d else 'absent'}")
    fd = kw_defaults(find_def(fields, "flag"))
    for k, want in (("negative_prefix", "DEFAULT_NEGATIVE_PREFIX"), ("negative_option", "None")):
        if k not in fd or unparse(fd[k]) != want:
            raise Unrecognised(f"flag() default of {k}")
    return (
        "From SPV Require Import Base.Str Model.BoolFlag.\nOpen Scope string_scope.\n"
        f"Definition TRUE_STRINGS : list string := {cstrs(true_s)}.\n"
        f"Definition FALSE_STRINGS : list string := {cstrs(false_s)}.\n"
        f"Definition str2bool_gen (raw_value : string) : option bool :=\n  {s2b_body}.\n"
        f"Definition DEFAULT_NEGATIVE_PREFIX : string := {cstr(neg_prefix)}.\n"
        f"Definition bool_arm_pinned_gen : string := {cstr(bool_arm_pin)}.\n"
        f"Definition call_table_gen : list (ctest * cbody) := {table}.\n"
        f"Definition call_else_gen : cbody := {els}.\n"
        "(* the model instantiated with the regenerated facts *)\n"
        "Definition action_call_gen := action_call str2bool_gen call_table_gen call_else_gen.\n"
        "Definition eval_occ_gen := eval_occ str2bool_gen call_table_gen call_else_gen.\n"
        "Definition eval_occs_gen := eval_occs str2bool_gen call_table_gen call_else_gen.\n"
        "Definition eval_flag_gen := eval_flag str2bool_gen call_table_gen call_else_gen.\n"
    )
