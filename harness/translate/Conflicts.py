"""Facts for the conflict resolver (conflicts.py) and option-string generation (field_wrapper.py).

Output: coq/Gen/FactsConflicts.v."""
from __future__ import annotations

import ast

from .pyast import Unrecognised, clean, const, enum_members, find_class, find_def, kw_defaults, parse, unparse


def _assigns(fn):
    out = {}
    for n in ast.walk(fn):
        if isinstance(n, ast.Assign) and len(n.targets) == 1:
            out.setdefault(unparse(n.targets[0]), []).append(n.value)
    return out


def _nat_expr(n, names):
    if isinstance(n, ast.Name) and n.id in names:
        return n.id
    if isinstance(n, ast.Constant) and isinstance(n.value, int) and n.value >= 0:
        return str(n.value)
    if isinstance(n, ast.BinOp) and isinstance(n.op, (ast.Add, ast.Sub)):
        op = "+" if isinstance(n.op, ast.Add) else "-"
        return f"({_nat_expr(n.left, names)} {op} {_nat_expr(n.right, names)})"
    raise Unrecognised(f"index expression {unparse(n)}")


def emit(repo: str) -> str:
    t = parse(repo, "simple_parsing/conflicts.py")
    cls = find_class(t, "ConflictResolver")
    init = [n for n in cls.body if isinstance(n, ast.FunctionDef) and n.name == "__init__"][0]
    a = _assigns(init)
    if "self.max_attempts" not in a or len(a["self.max_attempts"]) != 1:
        raise Unrecognised("max_attempts")
    max_attempts = const(a["self.max_attempts"][0], int)
    if not (0 < max_attempts < 2000):
        raise Unrecognised("max_attempts out of the range the model supports as fuel")

    auto = [n for n in cls.body if isinstance(n, ast.FunctionDef) and n.name == "_fix_conflict_auto"][0]
    aa = _assigns(auto)

    def one(name):
        if name not in aa or len(aa[name]) != 1:
            raise Unrecognised(f"_fix_conflict_auto: assignment to {name}")
        return aa[name][0]

    if unparse(one("field_wrappers")) != "sorted(conflict.wrappers, key=lambda w: w.nesting_level)":
        raise Unrecognised("_fix_conflict_auto: sort of the conflicting wrappers")
    if unparse(one("first_wrapper")) != "field_wrappers[0]" or unparse(one("second_wrapper")) != "field_wrappers[1]":
        raise Unrecognised("_fix_conflict_auto: first/second wrapper")
    if unparse(one("explicit_prefix")) != "field_wrapper.parent.dest + '.'" or unparse(one("current_prefix")) != "field_wrapper.prefix":
        raise Unrecognised("_fix_conflict_auto: prefixes")
    if unparse(one("available_words")) != "list(filter(bool, explicit_prefix.split('.')))" \
            or unparse(one("used_words")) != "list(filter(bool, current_prefix.split('.')))":
        raise Unrecognised("_fix_conflict_auto: word lists")
    if unparse(one("n_available_words")) != "len(available_words)" or unparse(one("n_used_words")) != "len(used_words)":
        raise Unrecognised("_fix_conflict_auto: word counts")
    w = one("word_to_add")
    if not (isinstance(w, ast.Subscript) and unparse(w.value) == "available_words"):
        raise Unrecognised("_fix_conflict_auto: word_to_add")
    idx = _nat_expr(w.slice, {"n_available_words", "n_used_words"})
    if unparse(one("field_wrapper.prefix")) != "word_to_add + '.' + current_prefix":
        raise Unrecognised("_fix_conflict_auto: new prefix")
    # the skip-the-least-nested test and the maxed-out test
    ifs = [n for n in ast.walk(auto) if isinstance(n, ast.If)]
    tests = [unparse(i.test) for i in ifs]
    if "first_wrapper.nesting_level < second_wrapper.nesting_level" in tests:
        strict = "true"
    elif "first_wrapper.nesting_level <= second_wrapper.nesting_level" in tests:
        strict = "false"
    else:
        raise Unrecognised(f"_fix_conflict_auto: nesting-level test {tests}")
    if "current_prefix == explicit_prefix" not in tests:
        raise Unrecognised("_fix_conflict_auto: maxed-out test")
    asserts = [unparse(n.test) for n in ast.walk(auto) if isinstance(n, ast.Assert)]
    if "len(available_words) > len(used_words)" in asserts:
        exhausted = 'Raise "AssertionError"'
    elif "len(available_words) <= len(used_words)" in tests:
        ex = [i for i in ifs if unparse(i.test) == "len(available_words) <= len(used_words)"][0]
        body = clean(ex.body)
        if len(body) != 1 or not isinstance(body[0], ast.Raise) or not unparse(body[0].exc).startswith("ConflictResolutionError("):
            raise Unrecognised("_fix_conflict_auto: what happens when no word is left")
        exhausted = "CRE"
    else:
        raise Unrecognised("_fix_conflict_auto: guard on the number of available words")
    skip = [i for i in ifs if "nesting_level" in unparse(i.test)][0]
    if [unparse(s) for s in clean(skip.body)] != ["field_wrappers.remove(first_wrapper)"]:
        raise Unrecognised("_fix_conflict_auto: body of the nesting-level test")

    expl = [n for n in cls.body if isinstance(n, ast.FunctionDef) and n.name == "_fix_conflict_explicit"][0]
    ea = _assigns(expl)
    if [unparse(v) for v in ea.get("explicit_prefix", [])] != ["field_wrapper.parent.dest + '.'"] \
            or [unparse(v) for v in ea.get("field_wrapper.prefix", [])] != ["explicit_prefix"]:
        raise Unrecognised("_fix_conflict_explicit: prefix assignment")
    etests = [unparse(i.test) for i in ast.walk(expl) if isinstance(i, ast.If)]
    if etests != ["any((w.prefix for w in conflict.wrappers))",
                  "another_conflict and another_conflict.option_string == conflict.option_string"]:
        raise Unrecognised(f"_fix_conflict_explicit: tests {etests}")

    members = [m for m, _ in enum_members(t, "ConflictResolution")]
    if sorted(members) != ["ALWAYS_MERGE", "AUTO", "EXPLICIT", "NONE"]:
        raise Unrecognised(f"ConflictResolution members {members}")

    ptree = parse(repo, "simple_parsing/parsing.py")
    pinit = find_def(ptree, "__init__", cls="ArgumentParser")
    d = kw_defaults(pinit)
    want = {"conflict_resolution": "ConflictResolution.AUTO", "add_option_string_dash_variants": "DashVariant.AUTO",
            "argument_generation_mode": "ArgumentGenerationMode.FLAT", "nested_mode": "NestedMode.DEFAULT"}
    for k, v in want.items():
        if k not in d or unparse(d[k]) != v:
            raise Unrecognised(f"ArgumentParser.__init__ default of {k}")
    pd = kw_defaults(find_def(ptree, "parse"))
    wantp = dict(want, nested_mode="NestedMode.WITHOUT_ROOT")
    for k, v in wantp.items():
        if k not in pd or unparse(pd[k]) != v:
            raise Unrecognised(f"parse() default of {k}")

    # option_strings: how duplicates are removed and how the result is ordered
    fwt = parse(repo, "simple_parsing/wrappers/field_wrapper.py")
    osf = find_def(fwt, "option_strings", cls="FieldWrapper")
    oa = _assigns(osf)
    if "option_strings" not in oa or len(oa["option_strings"]) != 1:
        raise Unrecognised("option_strings: de-duplication statement")
    dd = oa["option_strings"][0]
    pairs = "f'{dash}{option}' for dash, option in zip(dashes, options)"
    if isinstance(dd, ast.SetComp) and unparse(dd) == "{" + pairs + "}":
        order = "false"
    elif unparse(dd) == f"dict.fromkeys(({pairs}))":
        order = "true"
    else:
        raise Unrecognised(f"option_strings: de-duplication {unparse(dd)[:80]}")
    rets = [unparse(n.value) for n in ast.walk(osf) if isinstance(n, ast.Return) and n.value is not None]
    if sorted(rets) != sorted(["[self.dest]", "list(sorted(option_strings, key=len))"]):
        raise Unrecognised(f"option_strings: returns {rets}")
    dv = {m: unparse(v) for m, v in enum_members(fwt, "DashVariant")}
    if dv != {"AUTO": "False", "UNDERSCORE": "False", "UNDERSCORE_AND_DASH": "True", "DASH": "'only'"}:
        raise Unrecognised(f"DashVariant members {dv}")

    return (
        "From SPV Require Import Base.Str Model.OptStr.\nOpen Scope string_scope.\n"
        f"Definition max_attempts_gen : nat := {max_attempts}.\n"
        f"Definition auto_index_gen (n_available_words n_used_words : nat) : nat := {idx}.\n"
        f"Definition skip_first_strict_gen : bool := {strict}.\n"
        f"Definition exhausted_err_gen : err := {exhausted}.\n"
        f"Definition option_order_preserved_gen : bool := {order}.\n"
        "Definition default_cfg_parser : cfg := mkcfg DUnderscore GFlat NDefault.\n"
        "Definition default_cfg_parse : cfg := mkcfg DUnderscore GFlat NWithoutRoot.\n"
        "Definition loop_gen (opts : fw -> list string) := loop opts auto_index_gen exhausted_err_gen skip_first_strict_gen.\n"
        "Definition resolve_gen (opts : fw -> list string) (m : crmode) (fs : list fw) : res (list fw) :=\n"
        "  loop_gen opts m max_attempts_gen fs.\n"
    )
