"""ArgumentParser._fill_constructor_arguments_with_fields (simple_parsing/parsing.py) with FieldWrapper.__call__
(simple_parsing/wrappers/field_wrapper.py) as the procedure it calls, dumped as MiniPy blocks (coq/Model/MiniPy.v): the
regenerated *source* of the namespace -> constructor-arguments plumbing.  Output: coq/Gen/FactsPipelineSrc.v.

Objects (the parser, dataclass wrappers, field wrappers, dataclasses.Field, the argparse Namespace) are MiniPy objects: an
attribute read is EAttr.  What is NOT dumped, and how it enters the bridge theorem:
  field.default, field.dest, field.destinations, field.is_reused, field.is_subgroup, field.field.init, field.subgroup_choices,
  wrapper.fields, wrapper.defaults                    attributes of the objects in the environment (already computed values)
  self.duplicate_if_needed(values), self.postprocess(value)
                                                      uninterpreted pure functions given by tables (ECallTable): attributes
                                                      `duplicate_if_needed` / `postprocess` of the field object hold a dict
                                                      argument -> result ((VC "raise", cls) = raises cls)
  utils.split_dest                                    primitive ESplitDest; its source is shape-checked here
  logger.debug(..)                                    skipped (translate/pyast.clean); `from simple_parsing import ArgumentParser`
                                                      binds a name only; cast(T, x) is x
  self._results (FieldWrapper)                        a variable of the procedure: written, never read in the dumped code
Aliasing (translate/minipy.alias_check): `parsed_arg_values = vars(parsed_args)` is the live view of the namespace - the two
names are ONE variable (pop on the view = SPopAttr on the object); `constructor_arguments = initial_constructor_arguments.copy()`
is a shallow copy whose inner dicts are mutated - admitted only because initial_constructor_arguments is not used afterwards;
`constructor_arguments` and the namespace are the in/out arguments of the procedure call field(...).

Second pair: ArgumentParser._instantiate_dataclasses with _create_dataclass_instance as the procedure it calls (instantiate_src,
create_src).  Not dumped: dc_wrapper.dataclass_fn / the constructor call `constructor(**constructor_args)` is an uninterpreted
function of the keyword dict given by a table (it may raise); wrapper.optional / .default / .defaults / .fields / .destinations /
.nesting_level / .parent / .dest, field_wrapper.name / .default and self._defaults are attributes of the objects in the
environment; DC_TYPE_KEY is the string constant read from helpers/serialization/serializable.py; the identity-distinctness assert
(DISTINCT_ASSERT) is a declared no-op."""
from __future__ import annotations

import ast

from .minipy import Ctx, method_block
from .pyast import Unrecognised, const, cstr, find_def, module_assign, parse, unparse

CONSTS = {"argparse.SUPPRESS": "argparse.SUPPRESS", "dataclasses.MISSING": "dataclasses.MISSING"}
SPLIT_DEST = ("def split_dest(destination: str) -> tuple[str, str]:\n"
              "    parent, _, attribute_in_parent = destination.rpartition('.')\n"
              "    return (parent, attribute_in_parent)")
FILL_PARAMS = ["self", "parsed_args", "wrappers", "initial_constructor_arguments"]
CALL_PARAMS = ["self", "parser", "namespace", "values", "constructor_arguments", "option_string"]
INST_PARAMS = ["self", "parsed_args", "wrappers", "constructor_arguments"]
CREATE_PARAMS = ["wrapper", "constructor", "constructor_args"]
# `assert len(sorted_dc_wrappers) == len(set(sorted_dc_wrappers))`: the wrapper OBJECTS are pairwise distinct (identity); the model's
# wrappers are values, the statement is a declared no-op of the dump
DISTINCT_ASSERT = "assert len(sorted_dc_wrappers) == len(set(sorted_dc_wrappers))"


def emit(repo: str) -> str:
    parsing = parse(repo, "simple_parsing/parsing.py")
    fwmod = parse(repo, "simple_parsing/wrappers/field_wrapper.py")
    utils = parse(repo, "simple_parsing/utils.py")
    sd = find_def(utils, "split_dest")
    if unparse(sd) != SPLIT_DEST:
        raise Unrecognised("utils.split_dest changed (the primitive ESplitDest is str.rpartition('.') without the separator)")
    call = find_def(fwmod, "__call__", cls="FieldWrapper")
    fill = find_def(parsing, "_fill_constructor_arguments_with_fields", cls="ArgumentParser")
    for fn, want in ((call, CALL_PARAMS), (fill, FILL_PARAMS)):
        a = fn.args
        if [x.arg for x in a.posonlyargs + a.args] != want or a.vararg or a.kwarg or a.kwonlyargs:
            raise Unrecognised(f"{fn.name}: expected the parameters {want}")
    if len(call.args.defaults) != 1 or unparse(call.args.defaults[0]) != "None":
        raise Unrecognised("FieldWrapper.__call__: expected option_string=None as the only default")
    callee = Ctx(objects=True, consts=CONSTS, attr_targets=["self._results"],
                 tables=["self.duplicate_if_needed", "self.postprocess"], prims={"utils.split_dest": "ESplitDest"})
    # self._results is write-only in the dumped code
    for n in ast.walk(call):
        if isinstance(n, ast.Attribute) and n.attr == "_results" and isinstance(n.ctx, ast.Load) :
            par_ok = False
            for m in ast.walk(call):
                if isinstance(m, ast.Assign) and any(isinstance(t, ast.Subscript) and t.value is n for t in m.targets):
                    par_ok = True
            if not par_ok:
                raise Unrecognised("FieldWrapper.__call__ reads self._results")
    caller = Ctx(objects=True, consts=CONSTS, enum_prefixes=("ConflictResolution.",), procs={"field": (call, callee, "field")})
    blk, assigned = method_block(fill, caller)
    # the procedure alone (the same text that is embedded in the SCall above), for the bridge lemma about one call
    callee2 = Ctx(objects=True, consts=CONSTS, attr_targets=["self._results"],
                  tables=["self.duplicate_if_needed", "self.postprocess"], prims={"utils.split_dest": "ESplitDest"})
    cblk, cassigned = method_block(call, callee2)
    # ---- _instantiate_dataclasses with _create_dataclass_instance as the procedure it calls
    ser = parse(repo, "simple_parsing/helpers/serialization/serializable.py")
    dc_type_key = const(module_assign(ser, "DC_TYPE_KEY"), str)
    if not any(isinstance(n, ast.ImportFrom) and any(a.name == "DC_TYPE_KEY" and a.asname is None for a in n.names) for n in parsing.body):
        raise Unrecognised("parsing.py no longer imports DC_TYPE_KEY from the serialization helpers")
    inst = find_def(parsing, "_instantiate_dataclasses", cls="ArgumentParser")
    create = find_def(parsing, "_create_dataclass_instance")
    for fn, want in ((inst, INST_PARAMS), (create, CREATE_PARAMS)):
        a = fn.args
        if [x.arg for x in a.posonlyargs + a.args] != want or a.vararg or a.kwarg or a.kwonlyargs or a.defaults:
            raise Unrecognised(f"{fn.name}: expected the parameters {want}")
    ccreate = Ctx(objects=True, consts=CONSTS, tables=["constructor"])
    cinst = Ctx(objects=True, consts=CONSTS, enum_prefixes=("ConflictResolution.",), prims={"utils.split_dest": "ESplitDest"},
                str_consts={"DC_TYPE_KEY": dc_type_key}, skip_stmts=[DISTINCT_ASSERT],
                procs={"_create_dataclass_instance": (create, ccreate, None)})
    iblk, iassigned = method_block(inst, cinst)
    ccreate2 = Ctx(objects=True, consts=CONSTS, tables=["constructor"])
    crblk, crassigned = method_block(create, ccreate2)
    inst_text = ("(* _create_dataclass_instance *)\n"
                 f"Definition create_src : block :=\n  {crblk}.\n"
                 "(* ArgumentParser._instantiate_dataclasses; value = _create_dataclass_instance(..) is SCallRet .. create_src .. *)\n"
                 f"Definition instantiate_src : block :=\n  {iblk}.\n"
                 f"Definition instantiate_locals : list string := [{'; '.join(cstr(x) for x in iassigned)}].\n")
    return ("From SPV Require Import Base.Str Model.MiniPy.\nOpen Scope string_scope.\n"
            "(* FieldWrapper.__call__ *)\n"
            f"Definition field_call_src : block :=\n  {cblk}.\n"
            f"Definition field_call_locals : list string := [{'; '.join(cstr(x) for x in cassigned)}].\n"
            "(* ArgumentParser._fill_constructor_arguments_with_fields; the call field(...) is SCall field_call_src .. *)\n"
            f"Definition fill_src : block :=\n  {blk}.\n"
            f"Definition fill_locals : list string := [{'; '.join(cstr(x) for x in assigned)}].\n" + inst_text)
