"""ArgumentParser._fill_constructor_arguments_with_fields (simple_parsing/parsing.py) with FieldWrapper.__call__
(simple_parsing/wrappers/field_wrapper.py) as the procedure it calls, dumped as MiniPy blocks (coq/Model/MiniPy.v): the
regenerated *source* of the namespace -> constructor-arguments plumbing.  Output: coq/Gen/FactsPipelineSrc.v.

Objects (the parser, dataclass wrappers, field wrappers, dataclasses.Field, the argparse Namespace) are MiniPy objects: an
attribute read is EAttr.  What is NOT dumped, and how it enters the bridge theorem:
  field.default, field.dest, field.destinations, field.is_reused, field.is_subgroup, field.field.init, field.subgroup_choices,
  wrapper.fields, wrapper.defaults                    attributes of the objects in the environment (already computed values)
  self.duplicate_if_needed(values), self.postprocess(value)
                                                      uninterpreted pure functions given by tables (ECallTable): attributes
                                                      `duplicate_if_needed` / `postprocess` of the field object hold a dict
                                                      argument -> result ((VC "raise", cls) = raises cls)
  utils.split_dest                                    primitive ESplitDest; its source is shape-checked here
  logger.debug(..)                                    skipped (translate/pyast.clean); `from simple_parsing import ArgumentParser`
                                                      binds a name only; cast(T, x) is x
  self._results (FieldWrapper)                        a variable of the procedure: written, never read in the dumped code
Aliasing (translate/minipy.alias_check): `parsed_arg_values = vars(parsed_args)` is the live view of the namespace - the two
names are ONE variable (pop on the view = SPopAttr on the object); `constructor_arguments = initial_constructor_arguments.copy()`
is a shallow copy whose inner dicts are mutated - admitted only because initial_constructor_arguments is not used afterwards;
`constructor_arguments` and the namespace are the in/out arguments of the procedure call field(...)."""
from __future__ import annotations

import ast

from .minipy import Ctx, method_block
from .pyast import Unrecognised, cstr, find_def, parse, unparse

CONSTS = {"argparse.SUPPRESS": "argparse.SUPPRESS", "dataclasses.MISSING": "dataclasses.MISSING"}
SPLIT_DEST = ("def split_dest(destination: str) -> tuple[str, str]:\n"
              "    parent, _, attribute_in_parent = destination.rpartition('.')\n"
              "    return (parent, attribute_in_parent)")
FILL_PARAMS = ["self", "parsed_args", "wrappers", "initial_constructor_arguments"]
CALL_PARAMS = ["self", "parser", "namespace", "values", "constructor_arguments", "option_string"]


def emit(repo: str) -> str:
    parsing = parse(repo, "simple_parsing/parsing.py")
    fwmod = parse(repo, "simple_parsing/wrappers/field_wrapper.py")
    utils = parse(repo, "simple_parsing/utils.py")
    sd = find_def(utils, "split_dest")
    if unparse(sd) != SPLIT_DEST:
        raise Unrecognised("utils.split_dest changed (the primitive ESplitDest is str.rpartition('.') without the separator)")
    call = find_def(fwmod, "__call__", cls="FieldWrapper")
    fill = find_def(parsing, "_fill_constructor_arguments_with_fields", cls="ArgumentParser")
    for fn, want in ((call, CALL_PARAMS), (fill, FILL_PARAMS)):
        a = fn.args
        if [x.arg for x in a.posonlyargs + a.args] != want or a.vararg or a.kwarg or a.kwonlyargs:
            raise Unrecognised(f"{fn.name}: expected the parameters {want}")
    if len(call.args.defaults) != 1 or unparse(call.args.defaults[0]) != "None":
        raise Unrecognised("FieldWrapper.__call__: expected option_string=None as the only default")
    callee = Ctx(objects=True, consts=CONSTS, attr_targets=["self._results"],
                 tables=["self.duplicate_if_needed", "self.postprocess"], prims={"utils.split_dest": "ESplitDest"})
    # self._results is write-only in the dumped code
    for n in ast.walk(call):
        if isinstance(n, ast.Attribute) and n.attr == "_results" and isinstance(n.ctx, ast.Load) :
            par_ok = False
            for m in ast.walk(call):
                if isinstance(m, ast.Assign) and any(isinstance(t, ast.Subscript) and t.value is n for t in m.targets):
                    par_ok = True
            if not par_ok:
                raise Unrecognised("FieldWrapper.__call__ reads self._results")
    caller = Ctx(objects=True, consts=CONSTS, enum_prefixes=("ConflictResolution.",), procs={"field": (call, callee, "field")})
    blk, assigned = method_block(fill, caller)
    # the procedure alone (the same text that is embedded in the SCall above), for the bridge lemma about one call
    callee2 = Ctx(objects=True, consts=CONSTS, attr_targets=["self._results"],
                  tables=["self.duplicate_if_needed", "self.postprocess"], prims={"utils.split_dest": "ESplitDest"})
    cblk, cassigned = method_block(call, callee2)
    return ("From SPV Require Import Base.Str Model.MiniPy.\nOpen Scope string_scope.\n"
            "(* FieldWrapper.__call__ *)\n"
            f"Definition field_call_src : block :=\n  {cblk}.\n"
            f"Definition field_call_locals : list string := [{'; '.join(cstr(x) for x in cassigned)}].\n"
            "(* ArgumentParser._fill_constructor_arguments_with_fields; the call field(...) is SCall field_call_src .. *)\n"
            f"Definition fill_src : block :=\n  {blk}.\n"
            f"Definition fill_locals : list string := [{'; '.join(cstr(x) for x in assigned)}].\n")
