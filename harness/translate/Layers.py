"""Facts for the layering of value sources (C06).

From the working tree:
  utils.dict_union            loop body over the values of one key and the final test, compiled to Gallina
                              (`du_step_gen`, `du_final_gen`), keyword default of `recurse`, the iteration order of
                              the operands (left to right) and the shape of its two call sites in set_defaults
  ArgumentParser.parse_known_args
                              textual order of the constructor-config_path loop, the --config_path loop,
                              _preprocessing and argparse's parse_known_args; default= of the temporary argument
  ArgumentParser.set_defaults the re-rooting condition, compiled (`reroot_gen nested_mode nwrappers`)
  ArgumentParser.__init__ / parse()
                              default nested_mode, default add_config_path_arg and its `bool(config_path)` rule
  DataclassWrapper.set_default
                              statement skeleton, the discarded key(s), the class raised for unknown names
  FieldWrapper.default / set_default
                              the "was a default set" test (`self._default is not None`)
  _create_dataclass_instance  the test under which an Optional[Dataclass] member comes back as None, compiled
                              (`opt_guard_gen optional dset dinst`); DataclassWrapper.__init__'s Optional arm and the
                              `required` setter (descendants of an Optional member are never required)
  ArgumentParser._instantiate_dataclasses
                              the keys popped from the constructor arguments before the constructor call: none
                              (before the `_type_` fix) or `constructor_args.pop(DC_TYPE_KEY | "<lit>", None)`;
                              CTOR_STRIPS_TYPE_KEY_GEN = every key set_default discards is also popped there

Output: coq/Gen/FactsLayers.v (imports Model.Layers and instantiates it).  Fails closed."""
from __future__ import annotations

import ast

from .pyast import (Unrecognised, clean, const, cstr, cstrs, find_class, find_def, if_chain, kw_defaults, module_assign,
                    parse, unparse)

# ---- dict_union ------------------------------------------------------------------------------------


def _du_expr(n, names):
    """boolean expression over the loop state -> Gallina"""
    if isinstance(n, ast.BoolOp):
        op = " && " if isinstance(n.op, ast.And) else " || "
        return "(" + op.join(_du_expr(v, names) for v in n.values) + ")"
    if isinstance(n, ast.UnaryOp) and isinstance(n.op, ast.Not):
        return f"(negb {_du_expr(n.operand, names)})"
    if isinstance(n, ast.Name) and n.id == "recurse":
        return "recurse"
    if isinstance(n, ast.Constant) and isinstance(n.value, bool):
        return "true" if n.value else "false"
    t = unparse(n)
    if t == f"isinstance({names['v']}, dict)":
        return "v_is_dict"
    if t in (f"len({names['subs']}) == {names['n']}", f"{names['n']} == len({names['subs']})"):
        return "(Nat.eqb (List.length (st_subs st)) (st_n st))"
    raise Unrecognised(f"dict_union: test {t[:80]}")


def _du_stmts(body, names):
    """statements of the loop body -> Gallina expression of type du_st (threads `st`)"""
    out = []
    for s in clean(body):
        t = unparse(s)
        if isinstance(s, ast.If):
            arms, els = if_chain(s)
            e = _du_block(els, names)
            for test, b in reversed(arms):
                e = f"(if {_du_expr(test, names)} then {_du_block(b, names)} else {e})"
            out.append(e)
        elif t == f"{names['subs']}.append({names['v']})":
            out.append("(st_push st i)")
        elif t == f"{names['new']} = {names['v']}":
            out.append("(st_set st i)")
        elif t == f"{names['n']} += 1":
            out.append("(st_incr st)")
        else:
            raise Unrecognised(f"dict_union: loop statement {t[:80]}")
    return out


def _du_block(body, names):
    steps = _du_stmts(body, names)
    if not steps:
        return "st"
    e = "st"
    for s in reversed(steps):
        e = s if e == "st" else f"(let st := {s} in {e})"
    return e


def _dict_union(utils):
    fn = find_def(utils, "dict_union")
    a = fn.args
    if not (a.vararg and a.vararg.arg == "dicts" and not a.args and [k.arg for k in a.kwonlyargs] == ["recurse", "dict_factory"]):
        raise Unrecognised("dict_union signature")
    recurse_default = const(kw_defaults(fn)["recurse"], bool)
    body = clean(fn.body)
    texts = [unparse(s) for s in body]
    want_prefix = [
        "result: dict = dict_factory()",
        "if not dicts:\n    return result",
        "assert len(dicts) >= 1",
        "all_keys: set[str] = set()",
        "all_keys.update(*dicts)",
        "all_keys = sorted(all_keys)",
    ]
    if texts[:6] != want_prefix or texts[-1] != "return result" or len(body) != 9:
        raise Unrecognised("dict_union: statements around the key loop changed: " + " | ".join(texts)[:300])
    # the values of one key are taken from the operands left to right, only where the key is present
    gen = body[6]
    if not (isinstance(gen, ast.AnnAssign) and unparse(gen.target) == "all_values"
            and unparse(gen.value) == "((k, (d[k] for d in dicts if k in d)) for k in all_keys)"):
        raise Unrecognised("dict_union: all_values generator " + unparse(gen)[:200])
    loop = body[7]
    if not (isinstance(loop, ast.For) and unparse(loop.target) == "(k, values)" and unparse(loop.iter) == "all_values"
            and not loop.orelse):
        raise Unrecognised("dict_union: key loop header")
    lb = clean(loop.body)
    lt = [unparse(s) for s in lb]
    if len(lb) != 6 or lt[0] != "sub_dicts: list[dict] = []" or lt[1] != "new_value: V = None" or lt[2] != "n_values = 0" \
            or lt[5] != "result[k] = new_value":
        raise Unrecognised("dict_union: key loop body " + " | ".join(lt)[:300])
    names = {"v": "v", "subs": "sub_dicts", "new": "new_value", "n": "n_values"}
    inner = lb[3]
    if not (isinstance(inner, ast.For) and unparse(inner.target) == "v" and unparse(inner.iter) == "values" and not inner.orelse):
        raise Unrecognised("dict_union: value loop header")
    step = _du_block(inner.body, names)
    fin = lb[4]
    if not (isinstance(fin, ast.If) and not fin.orelse and [unparse(s) for s in clean(fin.body)] ==
            ["new_value = dict_union(*sub_dicts, recurse=True, dict_factory=dict_factory)"]):
        raise Unrecognised("dict_union: final test body " + unparse(fin)[:200])
    final = _du_expr(fin.test, names)
    return recurse_default, step, final


# ---- parse_known_args ------------------------------------------------------------------------------


def _calls_set_defaults_in_loop(block, iter_name):
    loops = [s for s in ast.walk(ast.Module(body=block, type_ignores=[])) if isinstance(s, ast.For)]
    for lp in loops:
        if unparse(lp.iter) == iter_name and [unparse(s) for s in clean(lp.body)] == [f"self.set_defaults({unparse(lp.target)})"]:
            return True
    return False


def _parse_known_args(parsing):
    fn = find_def(parsing, "parse_known_args", cls="ArgumentParser")
    body = clean(fn.body)
    pos = {}
    for i, s in enumerate(body):
        t = unparse(s)
        if isinstance(s, ast.If) and unparse(s.test) == "self.config_path":
            pos.setdefault("ctor", []).append(i)
            if not _calls_set_defaults_in_loop(s.body, "config_paths") or s.orelse:
                raise Unrecognised("parse_known_args: constructor config_path block")
            heads = [unparse(x) for x in clean(s.body)[:1]]
            if heads != ["if isinstance(self.config_path, Path):\n    config_paths = [self.config_path]\nelse:\n    config_paths = self.config_path"]:
                raise Unrecognised("parse_known_args: constructor config_path list normalisation")
        elif isinstance(s, ast.If) and unparse(s.test) == "self.add_config_path_arg":
            pos.setdefault("cli", []).append(i)
            cli_block = s
        elif t.startswith("self._preprocessing("):
            pos.setdefault("pre", []).append(i)
        elif "super().parse_known_args(" in t and isinstance(s, ast.Assign):
            pos.setdefault("argparse", []).append(i)
        elif "self._postprocessing(" in t:
            pos.setdefault("post", []).append(i)
        elif "set_defaults" in t:
            raise Unrecognised("parse_known_args: set_defaults called at an unknown place: " + t[:120])
    for k in ("ctor", "cli", "pre", "argparse", "post"):
        if len(pos.get(k, [])) != 1:
            raise Unrecognised(f"parse_known_args: `{k}` step not found exactly once")
    if not (max(pos["ctor"][0], pos["cli"][0]) < pos["pre"][0] < pos["argparse"][0] < pos["post"][0]):
        raise Unrecognised("parse_known_args: config layers are not applied before _preprocessing/argparse")
    order = ["PhCtorFiles", "PhCliFiles"] if pos["ctor"][0] < pos["cli"][0] else ["PhCliFiles", "PhCtorFiles"]
    # inside the --config_path block
    cb = clean(cli_block.body)
    if cli_block.orelse:
        raise Unrecognised("parse_known_args: --config_path block has an else")
    texts = [unparse(s) for s in cb]
    if not any(t == "(args_with_config_path, args) = temp_parser.parse_known_args(args)" or
               t == "args_with_config_path, args = temp_parser.parse_known_args(args)" for t in texts):
        raise Unrecognised("parse_known_args: temp parser call")
    adds = [s.value for s in cb if isinstance(s, ast.Expr) and isinstance(s.value, ast.Call)
            and unparse(s.value.func) == "temp_parser.add_argument"]
    if len(adds) != 1:
        raise Unrecognised("parse_known_args: temp_parser.add_argument")
    kws = {k.arg: k.value for k in adds[0].keywords}
    if unparse(kws.get("nargs", ast.Constant(None))) != "'*'" or unparse(kws.get("type", ast.Constant(None))) != "Path":
        raise Unrecognised("parse_known_args: temp argument nargs/type")
    d = unparse(kws["default"]) if "default" in kws else "None"
    if d == "self.config_path":
        cli_default_is_ctor = True
    elif d == "None":
        cli_default_is_ctor = False
    else:
        raise Unrecognised(f"parse_known_args: temp argument default {d}")
    inner = [s for s in cb if isinstance(s, ast.If) and unparse(s.test) == "config_path is not None"]
    if len(inner) != 1 or not _calls_set_defaults_in_loop(inner[0].body, "config_paths"):
        raise Unrecognised("parse_known_args: --config_path loop")
    if [unparse(x) for x in clean(inner[0].body)[:1]] != ["config_paths = config_path if isinstance(config_path, list) else [config_path]"]:
        raise Unrecognised("parse_known_args: --config_path list normalisation")
    return order, cli_default_is_ctor


# ---- set_defaults ----------------------------------------------------------------------------------

NMODES = {"DEFAULT": "NM_DEFAULT", "WITHOUT_ROOT": "NM_WITHOUT_ROOT"}


def _nmode(node):
    t = unparse(node)
    if t.startswith("NestedMode.") and t.split(".", 1)[1] in NMODES:
        return NMODES[t.split(".", 1)[1]]
    raise Unrecognised(f"nested mode {t}")


def _reroot_expr(n):
    if isinstance(n, ast.BoolOp):
        op = " && " if isinstance(n.op, ast.And) else " || "
        return "(" + op.join(_reroot_expr(v) for v in n.values) + ")"
    if isinstance(n, ast.UnaryOp) and isinstance(n.op, ast.Not):
        return f"(negb {_reroot_expr(n.operand)})"
    if isinstance(n, ast.Compare) and len(n.ops) == 1:
        l, r, op = n.left, n.comparators[0], n.ops[0]
        if unparse(l) == "self.nested_mode" and isinstance(op, (ast.Eq, ast.Is)):
            return f"(nmode_eqb nested_mode {_nmode(r)})"
        if unparse(l) == "self.nested_mode" and isinstance(op, (ast.NotEq, ast.IsNot)):
            return f"(negb (nmode_eqb nested_mode {_nmode(r)}))"
        if unparse(l) == "len(self._wrappers)":
            k = const(r, int)
            if k < 0:
                raise Unrecognised("negative wrapper count")
            f = {ast.Eq: "Nat.eqb nwrappers {k}", ast.NotEq: "negb (Nat.eqb nwrappers {k})", ast.GtE: "Nat.leb {k} nwrappers",
                 ast.LtE: "Nat.leb nwrappers {k}", ast.Gt: "Nat.ltb {k} nwrappers", ast.Lt: "Nat.ltb nwrappers {k}"}.get(type(op))
            if f:
                return "(" + f.format(k=k) + ")"
    raise Unrecognised(f"set_defaults: re-rooting condition {unparse(n)[:100]}")


def _set_defaults(parsing):
    fn = find_def(parsing, "set_defaults", cls="ArgumentParser")
    body = clean(fn.body)
    texts = [unparse(s) for s in body]
    if len(body) != 5 or not isinstance(body[0], ast.If) or unparse(body[0].test) != "config_path" or body[0].orelse:
        raise Unrecognised("set_defaults: statement skeleton " + " | ".join(t[:40] for t in texts))
    fb = clean(body[0].body)
    ft = [unparse(s) for s in fb]
    if len(fb) != 3 or ft[0] != "defaults = read_file(config_path)" or ft[2] != "kwargs = dict_union(defaults, kwargs)" \
            or not isinstance(fb[1], ast.If) or fb[1].orelse:
        raise Unrecognised("set_defaults: config file block " + " | ".join(ft)[:300])
    if [unparse(s) for s in clean(fb[1].body)] != ["defaults = {self._wrappers[0].dest: defaults}", "kwargs = {self._wrappers[0].dest: kwargs}"]:
        raise Unrecognised("set_defaults: re-rooting body")
    reroot = _reroot_expr(fb[1].test)
    if texts[1] != "kwarg_defaults_set_in_dataclasses = {}":
        raise Unrecognised("set_defaults: " + texts[1][:100])
    want_loop = (
        "for wrapper in self._wrappers:\n"
        "    if wrapper.dest in kwargs:\n"
        "        default_for_dataclass = kwargs[wrapper.dest]\n"
        "        if isinstance(default_for_dataclass, (str, Path)):\n"
        "            default_for_dataclass = read_file(path=default_for_dataclass)\n"
        "        elif not isinstance(default_for_dataclass, dict) and (not dataclasses.is_dataclass(default_for_dataclass)):\n"
        "            raise ValueError(MSG)\n"
        "        wrapper.set_default(default_for_dataclass)\n"
        "        assert wrapper.dest not in kwarg_defaults_set_in_dataclasses\n"
        "        value_for_constructor_arguments = default_for_dataclass if isinstance(default_for_dataclass, dict) else dataclasses.asdict(default_for_dataclass)\n"
        "        kwarg_defaults_set_in_dataclasses[wrapper.dest] = value_for_constructor_arguments\n"
        "        kwargs.pop(wrapper.dest)"
    )
    loop = body[2]

    class _Msg(ast.NodeTransformer):
        def visit_Raise(self, node):
            if isinstance(node.exc, ast.Call) and len(node.exc.args) == 1:
                node.exc.args = [ast.Name("MSG")]
            return node

    import copy
    got = unparse(_Msg().visit(copy.deepcopy(loop)))
    if got != want_loop:
        raise Unrecognised("set_defaults: loop over the wrappers changed:\n" + got[:600])
    if texts[3] != "self.constructor_arguments = dict_union(self.constructor_arguments, kwarg_defaults_set_in_dataclasses, dict_factory=lambda: defaultdict(dict))":
        raise Unrecognised("set_defaults: constructor_arguments update " + texts[3][:200])
    if texts[4] != "super().set_defaults(**kwargs)":
        raise Unrecognised("set_defaults: " + texts[4][:100])
    return reroot


def _defaults(parsing):
    init = find_def(parsing, "__init__", cls="ArgumentParser")
    d = kw_defaults(init)
    ap_nm = _nmode(d["nested_mode"])
    if unparse(d["add_config_path_arg"]) != "None" or unparse(d["config_path"]) != "None":
        raise Unrecognised("ArgumentParser.__init__ defaults of add_config_path_arg/config_path")
    texts = [unparse(s) for s in clean(init.body)]
    for want in ("self.nested_mode = nested_mode",
                 "self.config_path = Path(config_path) if isinstance(config_path, str) else config_path",
                 "if add_config_path_arg is None:\n    add_config_path_arg = bool(config_path)",
                 "self.add_config_path_arg = add_config_path_arg",
                 "self.constructor_arguments: dict[str, dict[str, Any]] = defaultdict(dict)"):
        if want not in texts:
            raise Unrecognised(f"ArgumentParser.__init__: `{want}` not found")
    pf = find_def(parsing, "parse")
    pd = kw_defaults(pf)
    parse_nm = _nmode(pd["nested_mode"])
    if unparse(pd["dest"]) != "'config'" or unparse(pd["add_config_path_arg"]) != "None":
        raise Unrecognised("parse() defaults of dest/add_config_path_arg")
    calls = [n for n in ast.walk(pf) if isinstance(n, ast.Call) and unparse(n.func) == "ArgumentParser"]
    if len(calls) != 1:
        raise Unrecognised("parse(): ArgumentParser(...) call")
    kws = {k.arg: unparse(k.value) for k in calls[0].keywords}
    for k in ("nested_mode", "config_path", "add_config_path_arg"):
        if kws.get(k) != k:
            raise Unrecognised(f"parse(): {k} is not passed through")
    adds = [n for n in ast.walk(pf) if isinstance(n, ast.Call) and unparse(n.func) == "parser.add_arguments"]
    if len(adds) != 1 or {k.arg: unparse(k.value) for k in adds[0].keywords}.get("default") != "default":
        raise Unrecognised("parse(): add_arguments(.., default=default)")
    return ap_nm, parse_nm


# ---- DataclassWrapper.set_default / FieldWrapper.default --------------------------------------------


def _dc_set_default(dcw):
    fn = find_def(dcw, "set_default", cls="DataclassWrapper")
    body = clean(fn.body)
    texts = [unparse(s) for s in body]
    head = [
        "if value is not None and (not isinstance(value, dict)):\n    field_default_values = dataclasses.asdict(value)\nelse:\n    field_default_values = value",
        "self._default = value",
        "if field_default_values is None:\n    return",
        "unknown_names = set(field_default_values)",
        "for field_wrapper in self.fields:\n    if field_wrapper.name not in field_default_values:\n        continue\n"
        "    field_default_value = field_default_values[field_wrapper.name]\n    field_wrapper.set_default(field_default_value)\n"
        "    unknown_names.remove(field_wrapper.name)",
        "for nested_dataclass_wrapper in self._children:\n    if nested_dataclass_wrapper.name not in field_default_values:\n        continue\n"
        "    field_default_value = field_default_values[nested_dataclass_wrapper.name]\n"
        "    nested_dataclass_wrapper.set_default(field_default_value)\n    unknown_names.remove(nested_dataclass_wrapper.name)",
    ]
    if texts[:6] != head:
        raise Unrecognised("DataclassWrapper.set_default: statements changed: " + " | ".join(t[:60] for t in texts))
    rest = body[6:]
    discard = []
    while rest and isinstance(rest[0], ast.Expr) and isinstance(rest[0].value, ast.Call) \
            and unparse(rest[0].value.func) == "unknown_names.discard" and len(rest[0].value.args) == 1:
        discard.append(const(rest[0].value.args[0], str))
        rest = rest[1:]
    if len(rest) != 1 or not isinstance(rest[0], ast.If) or unparse(rest[0].test) != "unknown_names" or rest[0].orelse:
        raise Unrecognised("DataclassWrapper.set_default: unknown-names check " + " | ".join(unparse(s)[:80] for s in rest))
    rb = clean(rest[0].body)
    if len(rb) != 1 or not isinstance(rb[0], ast.Raise) or not isinstance(rb[0].exc, ast.Call) or not isinstance(rb[0].exc.func, ast.Name):
        raise Unrecognised("DataclassWrapper.set_default: unknown names are not raised")
    return discard, rb[0].exc.func.id


def _fw_default(fw):
    sd = find_def(fw, "set_default", cls="FieldWrapper")
    if [unparse(s) for s in clean(sd.body)] != ["self._default = value"] or [a.arg for a in sd.args.args] != ["self", "value"]:
        raise Unrecognised("FieldWrapper.set_default body")
    fn = find_def(fw, "default", cls="FieldWrapper")
    if [unparse(d) for d in fn.decorator_list] != ["property"]:
        raise Unrecognised("FieldWrapper.default is not a property")
    body = clean(fn.body)

    def local_flag(st):
        """`name = <literal>` on a local other than `default` (book-keeping such as `single_value = True`)"""
        return (isinstance(st, ast.Assign) and len(st.targets) == 1 and isinstance(st.targets[0], ast.Name)
                and st.targets[0].id != "default" and isinstance(st.value, ast.Constant))

    # the decision chain is the first `if`; only local flags may precede it
    while body and local_flag(body[0]):
        body = body[1:]
    if not body or not isinstance(body[0], ast.If):
        raise Unrecognised("FieldWrapper.default: the decision chain is not the first statement: " + (unparse(body[0])[:80] if body else ""))
    arms, _ = if_chain(body[0])
    test, b = arms[0]
    rest = [st for st in b if not local_flag(st)]
    if [unparse(st) for st in rest] != ["default = self._default"]:
        raise Unrecognised("FieldWrapper.default: first arm body " + " | ".join(unparse(st)[:60] for st in b))
    t = unparse(test)
    if t == "self._default is not None":
        manual = "negb (is_null d)"
    else:
        raise Unrecognised(f"FieldWrapper.default: `was a default set` test {t[:80]}")
    # the next arms, in order: subgroup default, the parent's default instance, the field's own default
    tests = [unparse(x)[:60] for x, _ in arms[1:4]]
    want = ["self.is_subgroup", "any((parent_default not in (None, argparse.SUPPRESS) for parent_default in self.parent.defaults))"[:60], "self.field.default is not dataclasses.MISSING"]
    if tests != want:
        raise Unrecognised("FieldWrapper.default: fall-back chain " + " | ".join(tests))
    return manual


def _ctor_strip(parsing, ser):
    """keys popped from the constructor arguments between `constructor_args = constructor_arguments.pop(destination)`
    and the constructor call in _instantiate_dataclasses: none (before the `_type_` fix) or literal / DC_TYPE_KEY pops."""
    fn = find_def(parsing, "_instantiate_dataclasses", cls="ArgumentParser")
    homes = []
    for node in ast.walk(fn):
        body = getattr(node, "body", None)
        if isinstance(body, list):
            for i, st in enumerate(body):
                if isinstance(st, ast.Assign) and unparse(st) == "constructor_args = constructor_arguments.pop(destination)":
                    homes.append((body, i))
    if len(homes) != 1:
        raise Unrecognised("_instantiate_dataclasses: `constructor_args = constructor_arguments.pop(destination)` not found exactly once")
    body, i = homes[0]
    type_key = const(module_assign(ser, "DC_TYPE_KEY"), str)
    imported = any(isinstance(n, ast.ImportFrom) and (n.module or "").endswith("helpers.serialization.serializable")
                   and any(a.name == "DC_TYPE_KEY" and a.asname is None for a in n.names) for n in parsing.body)
    strip = []
    rest = clean(body[i + 1:])
    while rest and isinstance(rest[0], ast.Expr) and isinstance(rest[0].value, ast.Call) \
            and unparse(rest[0].value.func) == "constructor_args.pop":
        call = rest[0].value
        if len(call.args) != 2 or call.keywords or unparse(call.args[1]) != "None":
            raise Unrecognised("_instantiate_dataclasses: " + unparse(call)[:100])
        k = call.args[0]
        if isinstance(k, ast.Name) and k.id == "DC_TYPE_KEY" and imported:
            strip.append(type_key)
        elif isinstance(k, ast.Constant) and isinstance(k.value, str):
            strip.append(k.value)
        else:
            raise Unrecognised("_instantiate_dataclasses: popped key " + unparse(k)[:80])
        rest = rest[1:]
    # nothing else may edit the constructor arguments before they are used
    for st in rest:
        t = unparse(st)
        if "constructor_args.pop" in t or "del constructor_args" in t or "constructor_args.clear" in t \
                or "constructor_args = " in t or "constructor_args.update" in t or "constructor_args[" in t.split("=")[0]:
            raise Unrecognised("_instantiate_dataclasses: constructor_args edited at an unknown place: " + t[:120])
    if "_create_dataclass_instance(dc_wrapper, constructor, constructor_args)" not in unparse(ast.Module(body=rest, type_ignores=[])):
        raise Unrecognised("_instantiate_dataclasses: constructor call")
    return strip


def _opt_guard(parsing):
    """the test of _create_dataclass_instance under which an Optional member may come back as None, compiled over
    (optional, `_default is not None`, `some entry of .defaults is not None/SUPPRESS`); the loop that follows it is checked textually"""
    fn = find_def(parsing, "_create_dataclass_instance")
    if [a.arg for a in fn.args.args] != ["wrapper", "constructor", "constructor_args"]:
        raise Unrecognised("_create_dataclass_instance signature")
    body = clean(fn.body)
    if len(body) != 2 or not isinstance(body[0], ast.If) or body[0].orelse or unparse(body[1]) != "return constructor(**constructor_args)":
        raise Unrecognised("_create_dataclass_instance: statement skeleton " + " | ".join(unparse(x)[:50] for x in body))

    def ex(n):
        if isinstance(n, ast.BoolOp):
            op = " && " if isinstance(n.op, ast.And) else " || "
            return "(" + op.join(ex(v) for v in n.values) + ")"
        if isinstance(n, ast.UnaryOp) and isinstance(n.op, ast.Not):
            return f"(negb {ex(n.operand)})"
        t = unparse(n)
        atoms = {
            "wrapper.optional": "optional",
            "wrapper.default is None": "(negb dset)",
            "wrapper.default is not None": "dset",
            "all((default in (None, argparse.SUPPRESS) for default in wrapper.defaults))": "(negb dinst)",
            "not wrapper.defaults": "(negb dinst)",
        }
        if t in atoms:
            return atoms[t]
        raise Unrecognised("_create_dataclass_instance: test " + t[:100])

    guard = ex(body[0].test)
    inner = clean(body[0].body)
    want = ("for field_wrapper in wrapper.fields:\n    arg_value = constructor_args[field_wrapper.name]\n"
            "    default_value = field_wrapper.default\n    if arg_value != default_value:\n        break\nelse:\n    return None")
    import copy

    class _NoLog(ast.NodeTransformer):
        def visit_For(self, node):
            self.generic_visit(node)
            node.body = clean(node.body)
            node.orelse = clean(node.orelse)
            return node

        def visit_If(self, node):
            self.generic_visit(node)
            node.body = clean(node.body)
            return node

    if len(inner) != 1 or unparse(_NoLog().visit(copy.deepcopy(inner[0]))) != want:
        raise Unrecognised("_create_dataclass_instance: loop over the fields changed:\n" + unparse(inner[0])[:400] if inner else "empty")
    return guard


def _optional_child(dcw):
    """DataclassWrapper.__init__: a member whose annotation contains a dataclass (Optional[Dc]) gets a child wrapper with
    required = False (which switches `required` off on all its descendants) and optional = True"""
    init = find_def(dcw, "__init__", cls="DataclassWrapper")
    arms = [n for n in ast.walk(init) if isinstance(n, ast.If) and unparse(n.test) == "utils.contains_dataclass_type_arg(field_type)"]
    if len(arms) != 1:
        raise Unrecognised("DataclassWrapper.__init__: Optional[Dataclass] arm")
    texts = [unparse(x) for x in clean(arms[0].body)]
    for want in ("child_wrapper.required = False", "child_wrapper.optional = True", "self._children.append(child_wrapper)"):
        if want not in texts:
            raise Unrecognised(f"DataclassWrapper.__init__: `{want}` missing in the Optional[Dataclass] arm")
    setter = [n for n in find_class(dcw, "DataclassWrapper").body if isinstance(n, ast.FunctionDef) and n.name == "required"
              and any(unparse(d) == "required.setter" for d in n.decorator_list)]
    if len(setter) != 1 or [unparse(x) for x in clean(setter[0].body)] != [
            "self._required = value", "for field in self.fields:\n    field.required = value",
            "for child_wrapper in self._children:\n    child_wrapper.required = value"]:
        raise Unrecognised("DataclassWrapper.required setter")


def emit(repo: str) -> str:
    utils = parse(repo, "simple_parsing/utils.py")
    parsing = parse(repo, "simple_parsing/parsing.py")
    dcw = parse(repo, "simple_parsing/wrappers/dataclass_wrapper.py")
    fw = parse(repo, "simple_parsing/wrappers/field_wrapper.py")
    find_class(parsing, "ArgumentParser")
    recurse_default, step, final = _dict_union(utils)
    order, cli_default_is_ctor = _parse_known_args(parsing)
    reroot = _set_defaults(parsing)
    ap_nm, parse_nm = _defaults(parsing)
    discard, unknown_err = _dc_set_default(dcw)
    manual = _fw_default(fw)
    ser = parse(repo, "simple_parsing/helpers/serialization/serializable.py")
    strip = _ctor_strip(parsing, ser)
    guard = _opt_guard(parsing)
    _optional_child(dcw)
    b = lambda x: "true" if x else "false"  # noqa: E731
    return (
        "From SPV Require Import Base.Str Model.Layers.\nOpen Scope string_scope.\n"
        "(* utils.dict_union *)\n"
        f"Definition DU_RECURSE_DEFAULT : bool := {b(recurse_default)}.\n"
        "Definition du_step_gen (recurse : bool) (st : du_st) (i : nat) (v_is_dict : bool) : du_st :=\n"
        f"  {step}.\n"
        "Definition du_final_gen (recurse : bool) (st : du_st) : bool :=\n"
        f"  {final}.\n"
        "(* ArgumentParser.parse_known_args / set_defaults / __init__, parse() *)\n"
        f"Definition LAYER_ORDER_GEN : list phase := [{'; '.join(order)}].\n"
        f"Definition CLI_DEFAULT_IS_CTOR_GEN : bool := {b(cli_default_is_ctor)}.\n"
        "Definition reroot_gen (nested_mode : nmode) (nwrappers : nat) : bool :=\n"
        f"  {reroot}.\n"
        f"Definition AP_NESTED_MODE_GEN : nmode := {ap_nm}.\n"
        f"Definition PARSE_NESTED_MODE_GEN : nmode := {parse_nm}.\n"
        "(* DataclassWrapper.set_default, FieldWrapper.default *)\n"
        f"Definition DISCARD_GEN : list string := {cstrs(discard)}.\n"
        f"Definition UNKNOWN_ERR_GEN : string := {cstr(unknown_err)}.\n"
        f"Definition manual_set_gen (d : ptree) : bool := {manual}.\n"
        "(* _create_dataclass_instance: when an Optional member whose fields all hold their defaults is None *)\n"
        "Definition opt_guard_gen (optional dset dinst : bool) : bool :=\n"
        f"  {guard}.\n"
        "(* ArgumentParser._instantiate_dataclasses: keys popped from the constructor arguments *)\n"
        f"Definition CTOR_STRIP_GEN : list string := {cstrs(strip)}.\n"
        f"Definition CTOR_STRIPS_TYPE_KEY_GEN : bool := {b(all(k in strip for k in discard))}.\n"
        "(* the model instantiated with the regenerated facts *)\n"
        "Definition du_decide_gen := du_decide du_step_gen du_final_gen DU_RECURSE_DEFAULT.\n"
        "Definition dict_union_gen := du du_step_gen du_final_gen DU_RECURSE_DEFAULT.\n"
        "Definition leaf_default_gen := leaf_default manual_set_gen.\n"
        "Definition leaf_required_gen := leaf_required manual_set_gen.\n"
        "Definition set_default_tree_gen := set_default_tree DISCARD_GEN UNKNOWN_ERR_GEN.\n"
        "Definition has_unknown_gen := has_unknown DISCARD_GEN.\n"
        "Definition finish_gen := finish manual_set_gen opt_guard_gen.\n"
        "Definition finish_all_gen := finish_all manual_set_gen opt_guard_gen.\n"
        "Definition sd_wrappers_gen := sd_wrappers DISCARD_GEN UNKNOWN_ERR_GEN.\n"
        "Definition set_defaults_kwargs_gen := set_defaults_kwargs DISCARD_GEN UNKNOWN_ERR_GEN dict_union_gen.\n"
        "Definition rooted_gen := rooted reroot_gen.\n"
        "Definition set_defaults_file_gen := set_defaults_file DISCARD_GEN UNKNOWN_ERR_GEN dict_union_gen reroot_gen.\n"
        "Definition run_phase_gen := run_phase DISCARD_GEN UNKNOWN_ERR_GEN dict_union_gen reroot_gen CLI_DEFAULT_IS_CTOR_GEN.\n"
        "Definition run_gen := run manual_set_gen opt_guard_gen DISCARD_GEN UNKNOWN_ERR_GEN dict_union_gen reroot_gen LAYER_ORDER_GEN CLI_DEFAULT_IS_CTOR_GEN CTOR_STRIP_GEN.\n"
        "Definition extra_kwargs_gen := extra_kwargs CTOR_STRIP_GEN.\n"
    )
