"""The line scanner of simple_parsing/docstring.py dumped as MiniPy blocks (coq/Model/MiniPy.v): the regenerated *source* of the
helpers behind `_get_attribute_docstring`.  Output: coq/Gen/FactsDocSrc.v.

Dumped, each as the body of the function (parameters = variables of the environment):
  _contains_field_definition, _is_empty, _is_comment, _split_at_comment (a while loop over the characters, bounded by WHILE_FUEL
  rounds), _line_contains_definition_for, _get_comment_at_line, _get_inline_comment_at_line, _get_comment_ending_at_line,
  _get_docstring_starting_at_line.
A call of one of these helpers inside another is a procedure call on the callee's dumped body (SCallRet): when it occurs inside an
expression it is evaluated just before the statement into a fresh variable `<callee>#<k>` (translate/minipy.hoist_calls; the
helpers are pure functions of their arguments, a conditionally evaluated call must have plain names as arguments).
Strings are byte strings; str.strip / str.isidentifier are their ASCII readings (Base/Str.strip, MiniPy.is_ident).
logger.debug(..) is skipped.  Not dumped: _get_attribute_docstring itself (inspect.getsource, inspect.getdoc, dp_parse,
str.replace / str.splitlines, enumerate) and get_attribute_docstring (the MRO accumulation) - see translate/Doc.py."""
from __future__ import annotations

import ast

from .minipy import Ctx, method_block
from .pyast import Unrecognised, cstr, find_def, parse

WHILE_FUEL = 4096
ORDER = ["_contains_field_definition", "_is_empty", "_is_comment", "_split_at_comment", "_line_contains_definition_for",
         "_get_comment_at_line", "_get_inline_comment_at_line", "_get_comment_ending_at_line", "_get_docstring_starting_at_line"]
PARAMS = {"_contains_field_definition": ["line"], "_is_empty": ["line_str"], "_is_comment": ["line_str"], "_split_at_comment": ["line"],
          "_line_contains_definition_for": ["line", "field_name"], "_get_comment_at_line": ["code_lines", "line"],
          "_get_inline_comment_at_line": ["code_lines", "line"], "_get_comment_ending_at_line": ["code_lines", "line"],
          "_get_docstring_starting_at_line": ["code_lines", "line"]}


def emit(repo: str) -> str:
    mod = parse(repo, "simple_parsing/docstring.py")
    procs, out = {}, ["(* GENERATED from /repo by harness/translate/DocSrc.py on every check - do not edit *)",
                      "From SPV Require Import Base.Str Model.MiniPy.", "Open Scope string_scope.",
                      f"Definition doc_while_fuel : nat := {WHILE_FUEL}."]
    for name in ORDER:
        fn = find_def(mod, name)
        a = fn.args
        if [x.arg for x in a.posonlyargs + a.args] != PARAMS[name] or a.vararg or a.kwarg or a.kwonlyargs or a.defaults:
            raise Unrecognised(f"{name}: expected the parameters {PARAMS[name]}")
        if fn.decorator_list:
            raise Unrecognised(f"{name}: decorated")
        # a helper must not re-bind a name that is also a module-level helper (the calls are resolved by name)
        for n in ast.walk(fn):
            if isinstance(n, ast.Name) and isinstance(n.ctx, ast.Store) and n.id in ORDER:
                raise Unrecognised(f"{name} re-binds {n.id}")
        ctx = Ctx(objects=True, strings=True, hoist=True, procs=dict(procs), while_fuel=WHILE_FUEL)
        blk, locs = method_block(fn, ctx)
        short = name.lstrip("_")
        out.append(f"Definition {short}_src : list stmt :=\n  {blk}.")
        procs[name] = (fn, Ctx(objects=True, strings=True, hoist=True, procs=dict(procs), while_fuel=WHILE_FUEL), None)
    return "\n".join(out) + "\n"
