"""Facts for default propagation on an empty command line (C01), fail closed:

  parsing._create_dataclass_instance        the guard of the "Optional member is None by default" rule + the shape of its loop
  FieldWrapper.default                       order of the default sources (if/elif chain), where the factory result is cached,
                                             the packaging chain for re-used fields (`if self.is_reused and default is not None`)
  DataclassWrapper.__init__ / .defaults      push-down of the default instance into field wrappers and child wrappers
  DataclassWrapper.merge, ConflictResolver._fix_conflict_merge   which wrapper survives, what is merged, defaults extended
  parsing._instantiate_dataclasses           wrappers are instantiated deepest first
  parsing._fill_constructor_arguments_with_fields   namespace value or the field's default
  parsing.parse                              = ArgumentParser(nested_mode=..., ...) + add_arguments(cls, dest, default) + parse_args

Output: coq/Gen/FactsDefaults.v (imports Model.Defaults for the fact types, Gen.FactsConflicts for the resolver, instantiates the model)."""
from __future__ import annotations

import ast

from .pyast import Unrecognised, clean, find_def, if_chain, is_logger_call, kw_defaults, parse, unparse

GUARD_TODAY = "wrapper.optional and wrapper.default is None"
GUARD_REPAIRED = ("wrapper.optional and wrapper.default is None and "
                  "all((default in (None, argparse.SUPPRESS) for default in wrapper.defaults))")

SOURCES = {
    "self._default is not None": "SManual",
    "self.is_subgroup": "SSubgroup",
    "any((parent_default not in (None, argparse.SUPPRESS) for parent_default in self.parent.defaults))": "SParentDefaults",
    "self.field.default is not dataclasses.MISSING": "SFieldDefault",
    "self.field.default_factory is not dataclasses.MISSING": "SFactory",
    "self.action == 'store_true'": "SStoreTrue",
    "self.action == 'store_false'": "SStoreFalse",
}
PK_TESTS = {
    "single_value": "PkSingleValue",
    "utils.is_tuple_or_list(self.field.type) and len(default) != n_destinations": "PkContainerTypeAndLenNeN",
    "not isinstance(default, list)": "PkNotIsList",
}


def _texts(body):
    return [unparse(s) for s in body]


class _NoLogs(ast.NodeTransformer):
    """drops logger.debug(...)-style statements at every depth (behaviour-neutral), keeps everything else"""

    def generic_visit(self, node):
        super().generic_visit(node)
        for attr in ("body", "orelse", "finalbody"):
            b = getattr(node, attr, None)
            if isinstance(b, list) and b and isinstance(b[0], ast.stmt):
                nb = [x for x in b if not is_logger_call(x)]
                setattr(node, attr, nb or ([ast.Pass()] if attr == "body" else []))
        return node


def _nologs(fn):
    import copy
    return ast.fix_missing_locations(_NoLogs().visit(copy.deepcopy(fn)))


def _flat(text):
    """indentation-insensitive form of a piece of source text"""
    return "\n".join(line.strip() for line in text.splitlines())


def _guard(ptree):
    fn = _nologs(find_def(ptree, "_create_dataclass_instance"))
    if [a.arg for a in fn.args.args] != ["wrapper", "constructor", "constructor_args"]:
        raise Unrecognised("_create_dataclass_instance signature")
    body = clean(fn.body)
    if len(body) != 2 or not isinstance(body[0], ast.If) or body[0].orelse:
        raise Unrecognised("_create_dataclass_instance: expected `if <guard>: for ...` followed by the constructor call")
    test = unparse(body[0].test)
    if test == GUARD_TODAY:
        guard = "GDefault"
    elif test == GUARD_REPAIRED:
        guard = "GDefaultAndDefaults"
    else:
        raise Unrecognised(f"_create_dataclass_instance: guard {test}")
    inner = clean(body[0].body)
    if len(inner) != 1 or not isinstance(inner[0], ast.For):
        raise Unrecognised("_create_dataclass_instance: body of the guard")
    loop = inner[0]
    if unparse(loop.target) != "field_wrapper" or unparse(loop.iter) != "wrapper.fields":
        raise Unrecognised("_create_dataclass_instance: loop header")
    want = ["arg_value = constructor_args[field_wrapper.name]", "default_value = field_wrapper.default",
            "if arg_value != default_value:\n    break"]
    if _texts(clean(loop.body)) != want or _texts(clean(loop.orelse)) != ["return None"]:
        raise Unrecognised("_create_dataclass_instance: loop body / else")
    if unparse(body[1]) != "return constructor(**constructor_args)":
        raise Unrecognised("_create_dataclass_instance: constructor call")
    return guard


def _default_property(fwtree):
    fn = _nologs(find_def(fwtree, "default", cls="FieldWrapper"))
    if not any(unparse(d) == "property" for d in fn.decorator_list):
        raise Unrecognised("FieldWrapper.default is not the property")
    body = clean(fn.body)
    texts = _texts(body)
    has_single = False
    if texts and texts[0] == "single_value = True":
        has_single = True
        body, texts = body[1:], texts[1:]
    if len(body) != 3 or not isinstance(body[0], ast.If) or not isinstance(body[1], ast.If) or texts[2] != "return default":
        raise Unrecognised("FieldWrapper.default: expected the source chain, the packaging block and `return default`")
    arms, els = if_chain(body[0])
    if _texts(els) != ["default = None"]:
        raise Unrecognised("FieldWrapper.default: else of the source chain")
    order, cached = [], None
    single_false_at = []
    for test, b in arms:
        t = unparse(test)
        if t not in SOURCES:
            raise Unrecognised(f"FieldWrapper.default: source test {t}")
        src = SOURCES[t]
        if src in order:
            raise Unrecognised(f"FieldWrapper.default: source {src} twice")
        order.append(src)
        bt = _texts(b)
        if src == "SManual":
            if bt == ["default = self._default", "single_value = False"]:
                single_false_at.append("manual")
            elif bt != ["default = self._default"]:
                raise Unrecognised("FieldWrapper.default: body of the `_default` arm")
        elif src == "SSubgroup":
            if bt != ["default = self.subgroup_default"]:
                raise Unrecognised("FieldWrapper.default: body of the subgroup arm")
        elif src == "SParentDefaults":
            if len(b) != 3 or not isinstance(b[0], ast.FunctionDef) or b[0].name != "_get_value":
                raise Unrecognised("FieldWrapper.default: body of the parent-defaults arm")
            gv = _texts(clean(b[0].body))
            if gv != ["if isinstance(dataclass_default, dict):\n    return dataclass_default.get(name)", "return getattr(dataclass_default, name)"]:
                raise Unrecognised("FieldWrapper.default: _get_value")
            if bt[1] != ("defaults = [_get_value(parent_default, self.field.name) for parent_default in self.parent.defaults "
                         "if parent_default not in (None, argparse.SUPPRESS)]"):
                raise Unrecognised("FieldWrapper.default: list of parent defaults")
            sel = b[2]
            if not isinstance(sel, ast.If) or unparse(sel.test) != "len(self.parent.defaults) == 1" \
                    or _texts(clean(sel.body)) != ["default = defaults[0]"]:
                raise Unrecognised("FieldWrapper.default: one parent default / several")
            e = _texts(clean(sel.orelse))
            if e == ["default = defaults", "single_value = False"]:
                single_false_at.append("many")
            elif e != ["default = defaults"]:
                raise Unrecognised("FieldWrapper.default: several parent defaults")
        elif src == "SFieldDefault":
            if bt != ["default = self.field.default"]:
                raise Unrecognised("FieldWrapper.default: body of the field-default arm")
        elif src == "SFactory":
            if bt == ["if self._default is None:\n    self._default = self.field.default_factory()", "default = self._default"]:
                cached = "true"
            elif bt == ["if self._default_factory_result is dataclasses.MISSING:\n    self._default_factory_result = self.field.default_factory()",
                        "default = self._default_factory_result"]:
                cached = "false"
            else:
                raise Unrecognised("FieldWrapper.default: body of the default_factory arm")
        elif src == "SStoreTrue":
            if bt != ["default = False"]:
                raise Unrecognised("FieldWrapper.default: store_true arm")
        elif src == "SStoreFalse":
            if bt != ["default = True"]:
                raise Unrecognised("FieldWrapper.default: store_false arm")
    if cached is None or "SManual" not in order or "SParentDefaults" not in order or "SFieldDefault" not in order:
        raise Unrecognised("FieldWrapper.default: a default source is missing")
    # packaging
    pk = body[1]
    if unparse(pk.test) != "self.is_reused and default is not None" or pk.orelse:
        raise Unrecognised("FieldWrapper.default: packaging guard")
    pb = clean(pk.body)
    pt = _texts(pb)
    if len(pb) != 4 or pt[0] != "n_destinations = len(self.destinations)" or pt[1] != "assert n_destinations >= 1" \
            or not isinstance(pb[2], ast.If) or not pt[3].startswith("assert len(default) == n_destinations"):
        raise Unrecognised("FieldWrapper.default: packaging block")
    parms, pels = if_chain(pb[2])
    if pels:
        raise Unrecognised("FieldWrapper.default: packaging chain has an else")
    chain = []
    for test, b in parms:
        t = unparse(test)
        if t not in PK_TESTS or _texts(b) != ["default = [default] * n_destinations"]:
            raise Unrecognised(f"FieldWrapper.default: packaging arm {t}")
        chain.append(PK_TESTS[t])
    uses_single = "PkSingleValue" in chain
    if uses_single != has_single or (uses_single and sorted(single_false_at) != ["manual", "many"]) \
            or (not uses_single and single_false_at):
        raise Unrecognised("FieldWrapper.default: `single_value` is not set exactly at the `_default` arm and the several-defaults arm")
    if uses_single and cached != "false":
        raise Unrecognised("FieldWrapper.default: `single_value` with a factory result cached in `_default`")
    return order, cached, chain


def _dcw(dtree):
    init = _nologs(find_def(dtree, "__init__", cls="DataclassWrapper"))
    text = _flat(unparse(init))
    for piece in ("self._defaults: list[DataclassT] = [default] if default else []",
                  "elif default not in (None, argparse.SUPPRESS):\n                field_default = getattr(default, field.name)",
                  "child_wrapper = DataclassWrapper(dataclass, name, parent=self, _field=field, default=field_default)",
                  "child_wrapper = DataclassWrapper(field_dataclass, name=field.name, parent=self, _field=field, default=field_default)",
                  "child_wrapper.optional = True",
                  "field_wrapper = self.field_wrapper_class(field, parent=self, prefix=self.prefix)",
                  "if field_default is not dataclasses.MISSING:\n                    field_wrapper.set_default(field_default)",
                  "elif dataclasses.is_dataclass(field_type) and field.default is not None:",
                  "elif utils.contains_dataclass_type_arg(field_type):"):
        if _flat(piece) not in text:
            raise Unrecognised(f"DataclassWrapper.__init__: `{piece[:70]}` not found")
    dfn = [n for n in find_class_body(dtree, "DataclassWrapper") if isinstance(n, ast.FunctionDef) and n.name == "defaults"
           and any(unparse(d) == "property" for d in n.decorator_list)]
    if len(dfn) != 1:
        raise Unrecognised("DataclassWrapper.defaults property")
    want = ["if self._defaults:\n    return self._defaults",
            "if self._field is None:\n    return []",
            "assert self.parent is not None",
            "if self.parent.defaults:\n    self._defaults = []\n    for default in self.parent.defaults:\n        if default not in (None, argparse.SUPPRESS):\n"
            "            default = getattr(default, self.name)\n        self._defaults.append(default)\nelse:\n"
            "    default_field_value = utils.default_value(self._field)\n    if default_field_value is MISSING:\n        self._defaults = []\n"
            "    else:\n        self._defaults = [default_field_value]",
            "return self._defaults"]
    if _texts(clean(dfn[0].body)) != want:
        raise Unrecognised("DataclassWrapper.defaults: body changed")
    mg = _nologs(find_def(dtree, "merge", cls="DataclassWrapper"))
    want = ["for dest in other.destinations:\n    if dest not in self.destinations:\n        self.destinations.append(dest)",
            "self.defaults.extend(other.defaults)",
            "for field_wrapper in self.fields:\n    field_wrapper.set_default(None)",
            "for child, other_child in zip(self._children, other._children):\n    child.merge(other_child)"]
    if _texts(clean(mg.body)) != want:
        raise Unrecognised("DataclassWrapper.merge: body changed")


def find_class_body(tree, name):
    c = [n for n in tree.body if isinstance(n, ast.ClassDef) and n.name == name]
    if len(c) != 1:
        raise Unrecognised(f"class {name}")
    return c[0].body


def _fix_merge(ctree):
    fn = _nologs(find_def(ctree, "_fix_conflict_merge", cls="ConflictResolver"))
    texts = _texts(clean(fn.body))
    need = ["fields = sorted(conflict.wrappers, key=lambda w: w.nesting_level)", "first_wrapper: FieldWrapper = fields[0]",
            "wrappers = wrappers_flat.copy()", "first_containing_dataclass: DataclassWrapper = first_wrapper.parent",
            "original_parent = first_containing_dataclass.parent", "wrappers = self._remove(first_containing_dataclass, wrappers)",
            "assert first_containing_dataclass.multiple", "wrappers = self._add(first_containing_dataclass, wrappers)",
            "if original_parent:\n    original_parent._children.append(first_containing_dataclass)", "return wrappers"]
    for n in need:
        if n not in texts:
            raise Unrecognised(f"_fix_conflict_merge: `{n[:60]}` not found")
    body = ("    containing_dataclass = wrapper.parent\n    wrappers = self._remove(containing_dataclass, wrappers)\n"
            "    first_containing_dataclass.merge(containing_dataclass)")
    if "for wrapper in conflict.wrappers[1:]:\n" + body in texts:
        rest_sorted = "false"
    elif "for wrapper in fields[1:]:\n" + body in texts:
        rest_sorted = "true"
    else:
        raise Unrecognised("_fix_conflict_merge: loop over the wrappers to absorb")
    rm = _nologs(find_def(ctree, "_remove", cls="ConflictResolver"))
    want = ["if isinstance(wrapper, FieldWrapper):\n    wrapper = wrapper.parent", "assert isinstance(wrapper, DataclassWrapper)",
            "wrappers.remove(wrapper)", "for child in wrapper.descendants:\n    wrappers.remove(child)",
            "for other_wrapper in wrappers:\n    if wrapper in other_wrapper._children:\n        other_wrapper._children.remove(wrapper)",
            "return wrappers"]
    if _texts(clean(rm.body)) != want:
        raise Unrecognised("ConflictResolver._remove: body changed")
    return rest_sorted


def _instantiate(ptree):
    fn = _nologs(find_def(ptree, "_instantiate_dataclasses", cls="ArgumentParser"))
    srt = [n for n in ast.walk(fn) if isinstance(n, ast.AnnAssign) and unparse(n.target) == "sorted_dc_wrappers"]
    srt += [n for n in ast.walk(fn) if isinstance(n, ast.Assign) and unparse(n.targets[0]) == "sorted_dc_wrappers"]
    if len(srt) != 1:
        raise Unrecognised("_instantiate_dataclasses: assignment to sorted_dc_wrappers")
    v = unparse(srt[0].value)
    if v == "sorted(wrappers, key=lambda w: w.nesting_level, reverse=True)":
        deepest = "true"
    elif v in ("sorted(wrappers, key=lambda w: w.nesting_level)", "sorted(wrappers, key=lambda w: w.nesting_level, reverse=False)"):
        deepest = "false"
    else:
        raise Unrecognised(f"_instantiate_dataclasses: order {v}")
    loops = [n for n in ast.walk(fn) if isinstance(n, ast.For)]
    heads = [(unparse(n.target), unparse(n.iter)) for n in loops]
    if heads != [("dc_wrapper", "sorted_dc_wrappers"), ("destination", "dc_wrapper.destinations")]:
        raise Unrecognised(f"_instantiate_dataclasses: loops {heads}")
    text = _flat(unparse(fn))
    for piece in ("constructor_args = constructor_arguments.pop(destination)",
                  "value_for_dataclass_field = _create_dataclass_instance(dc_wrapper, constructor, constructor_args)",
                  "constructor_arguments[parent_key][attr] = value_for_dataclass_field",
                  "setattr(parsed_args, destination, value_for_dataclass_field)",
                  "assert not constructor_arguments"):
        if piece not in text:
            raise Unrecognised(f"_instantiate_dataclasses: `{piece[:60]}` not found")
    fill = _flat(unparse(_nologs(find_def(ptree, "_fill_constructor_arguments_with_fields", cls="ArgumentParser"))))
    for piece in ("values = parsed_arg_values.pop(field.dest, field.default)",
                  "field(parser=self, namespace=parsed_args, values=values, constructor_arguments=constructor_arguments)"):
        if _flat(piece) not in fill:
            raise Unrecognised(f"_fill_constructor_arguments_with_fields: `{piece[:60]}` not found")
    return deepest


def _parse_helper(ptree):
    fn = find_def(ptree, "parse")
    body = clean(fn.body)
    texts = _texts(body)
    want_parser = ("parser = ArgumentParser(nested_mode=nested_mode, add_help=True, config_path=config_path, "
                   "conflict_resolution=conflict_resolution, add_option_string_dash_variants=add_option_string_dash_variants, "
                   "argument_generation_mode=argument_generation_mode, formatter_class=formatter_class, "
                   "add_config_path_arg=add_config_path_arg, **kwargs)")
    need = [want_parser, "parser.add_arguments(config_class, prefix=prefix, dest=dest, default=default)",
            "parsed_args = parser.parse_args(args)", "config: Dataclass = getattr(parsed_args, dest)", "return config"]
    pos = []
    for n in need:
        if n not in texts:
            raise Unrecognised(f"parse(): `{n[:60]}` not found")
        pos.append(texts.index(n))
    if pos != sorted(pos):
        raise Unrecognised("parse(): statement order")
    others = [t for t in texts if t not in need]
    allowed = ["if dest == add_config_path_arg:\n    raise ValueError('`add_config_path_arg` cannot be the same as `dest`.')",
               "if isinstance(args, str):\n    args = shlex.split(args)"]
    if others != allowed:
        raise Unrecognised("parse(): unexpected statements " + " | ".join(others)[:200])
    d = kw_defaults(fn)
    if unparse(d.get("nested_mode")) != "NestedMode.WITHOUT_ROOT" or unparse(d.get("default")) != "None" or unparse(d.get("dest")) != "'config'":
        raise Unrecognised("parse(): keyword defaults")
    # the wrapper FieldWrapper.__call__ distributes values over the destinations and post-processes each
    return "true"


def _call(fwtree):
    fn = _flat(unparse(_nologs(find_def(fwtree, "__call__", cls="FieldWrapper"))))
    for piece in ("if self.is_reused:\n        values = self.duplicate_if_needed(values)",
                  "else:\n        values = [values]",
                  "for destination, value in zip(self.destinations, values):",
                  "value = self.postprocess(value)",
                  "constructor_arguments[parent_dest][attribute] = value"):
        if _flat(piece) not in fn:
            raise Unrecognised(f"FieldWrapper.__call__: `{piece[:50]}` not found")


def emit(repo: str) -> str:
    ptree = parse(repo, "simple_parsing/parsing.py")
    fwtree = parse(repo, "simple_parsing/wrappers/field_wrapper.py")
    dtree = parse(repo, "simple_parsing/wrappers/dataclass_wrapper.py")
    ctree = parse(repo, "simple_parsing/conflicts.py")
    guard = _guard(ptree)
    order, cached, chain = _default_property(fwtree)
    _dcw(dtree)
    rest_sorted = _fix_merge(ctree)
    deepest = _instantiate(ptree)
    parse_same = _parse_helper(ptree)
    _call(fwtree)
    return (
        "From SPV Require Import Base.Str Model.OptStr Model.Defaults Model.DefaultsSpec Gen.FactsConflicts.\nOpen Scope string_scope.\n"
        f"Definition guard_gen : guard_kind := {guard}.\n"
        f"Definition default_sources_gen : list dsource := [{'; '.join(order)}].\n"
        f"Definition factory_cached_gen : bool := {cached}.\n"
        f"Definition pk_chain_gen : list pk_test := [{'; '.join(chain)}].\n"
        f"Definition deepest_first_gen : bool := {deepest}.\n"
        f"Definition parse_is_parser_gen : bool := {parse_same}.\n"
        f"Definition merge_rest_sorted_gen : bool := {rest_sorted}.\n"
        "(* the model instantiated with the regenerated facts *)\n"
        "Definition leaf_default_gen := leaf_default default_sources_gen factory_cached_gen.\n"
        "Definition run_fields_gen := run_fields guard_gen default_sources_gen factory_cached_gen.\n"
        "Definition parse_plain_gen := parse_plain guard_gen default_sources_gen factory_cached_gen.\n"
        "Definition parse_uniform_gen := parse_uniform default_sources_gen pk_chain_gen.\n"
        "Definition parse_merge_gen := parse_merge guard_gen default_sources_gen factory_cached_gen pk_chain_gen deepest_first_gen\n"
        "  merge_rest_sorted_gen max_attempts_gen.\n"
        "Definition sp_parse_empty_gen := sp_parse_empty guard_gen default_sources_gen factory_cached_gen pk_chain_gen deepest_first_gen\n"
        "  parse_is_parser_gen merge_rest_sorted_gen max_attempts_gen resolve_gen.\n"
        "Definition side_ok_gen := side_ok guard_gen pk_chain_gen max_attempts_gen.\n"
    )
