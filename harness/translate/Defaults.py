"""Facts for default propagation on an empty command line (C01), fail closed:

  parsing._create_dataclass_instance        the guard of the "Optional member is None by default" rule + the shape of its loop
  FieldWrapper.default                       order of the default sources (if/elif chain), where the factory result is cached,
                                             the packaging chain for re-used fields (`if self.is_reused and default is not None`)
  DataclassWrapper.__init__ / .defaults      push-down of the default instance into field wrappers and child wrappers
  DataclassWrapper.merge, ConflictResolver._fix_conflict_merge   which wrapper survives, what is merged, defaults extended
  parsing._instantiate_dataclasses           wrappers are instantiated deepest first
  parsing._fill_constructor_arguments_with_fields   namespace value or the field's default
  parsing.parse                              = ArgumentParser(nested_mode=..., ...) + add_arguments(cls, dest, default) + parse_args

Output: coq/Gen/FactsDefaults.v (imports Model.Defaults for the fact types, Gen.FactsConflicts for the resolver, instantiates the model)."""
from __future__ import annotations

import ast

from .pyast import Unrecognised, clean, find_def, if_chain, is_logger_call, kw_defaults, parse, unparse

GUARD_TODAY = "wrapper.optional and wrapper.default is None"
GUARD_REPAIRED = ("wrapper.optional and wrapper.default is None and "
                  "all((default in (None, argparse.SUPPRESS) for default in wrapper.defaults))")

SOURCES = {
    "self._default is not None": "SManual",
    "self.is_subgroup": "SSubgroup",
    "any((parent_default not in (None, argparse.SUPPRESS) for parent_default in self.parent.defaults))": "SParentDefaults",
    "self.field.default is not dataclasses.MISSING": "SFieldDefault",
    "self.field.default_factory is not dataclasses.MISSING": "SFactory",
    "self.action == 'store_true'": "SStoreTrue",
    "self.action == 'store_false'": "SStoreFalse",
}
PK_TESTS = {
    "single_value": "PkSingleValue",
    "utils.is_tuple_or_list(self.field.type) and len(default) != n_destinations": "PkContainerTypeAndLenNeN",
    "not isinstance(default, list)": "PkNotIsList",
}


def _texts(body):
    return [unparse(s) for s in body]


class _NoLogs(ast.NodeTransformer):
    """drops logger.debug(...)-style statements at every depth (behaviour-neutral), keeps everything else"""

    def generic_visit(self, node):
        super().generic_visit(node)
        for attr in ("body", "orelse", "finalbody"):
            b = getattr(node, attr, None)
            if isinstance(b, list) and b and isinstance(b[0], ast.stmt):
                nb = [x for x in b if not is_logger_call(x)]
                setattr(node, attr, nb or ([ast.Pass()] if attr == "body" else []))
        return node


def _nologs(fn):
    import copy
    return ast.fix_missing_locations(_NoLogs().visit(copy.deepcopy(fn)))


def _flat(text):
    """indentation-insensitive form of a piece of source text"""
    return "\n".join(line.strip() for line in text.splitlines())


def _guard(ptree):
    fn = _nologs(find_def(ptree, "_create_dataclass_instance"))
    if [a.arg for a in fn.args.args] != ["wrapper", "constructor", "constructor_args"]:
        raise Unrecognised("_create_dataclass_instance signature")
    body = clean(fn.body)
    if len(body) != 2 or not isinstance(body[0], ast.If) or body[0].orelse:
        raise Unrecognised("_create_dataclass_instance: expected `if <guard>: for ...` followed by the constructor call")
    test = unparse(body[0].test)
    if test == GUARD_TODAY:
        guard = "GDefault"
    elif test == GUARD_REPAIRED:
        guard = "GDefaultAndDefaults"
    else:
        raise Unrecognised(f"_create_dataclass_instance: guard {test}")
    inner = clean(body[0].body)
    if len(inner) != 1 or not isinstance(inner[0], ast.For):
        raise Unrecognised("_create_dataclass_instance: body of the guard")
    loop = inner[0]
    if unparse(loop.target) != "field_wrapper" or unparse(loop.iter) != "wrapper.fields":
        raise Unrecognised("_create_dataclass_instance: loop header")
    want = ["arg_value = constructor_args[field_wrapper.name]", "default_value = field_wrapper.default",
            "if arg_value != default_value:\n    break"]
    if _texts(clean(loop.body)) != want or _texts(clean(loop.orelse)) != ["return None"]:
        raise Unrecognised("_create_dataclass_instance: loop body / else")
    if unparse(body[1]) != "return constructor(**constructor_args)":
        raise Unrecognised("_create_dataclass_instance: constructor call")
    return guard


def _default_property(fwtree):
    fn = _nologs(find_def(fwtree, "default", cls="FieldWrapper"))
    if not any(unparse(d) == "property" for d in fn.decorator_list):
        raise Unrecognised("FieldWrapper.default is not the property")
    body = clean(fn.body)
    texts = _texts(body)
    has_single = False
    if texts and texts[0] == "single_value = True":
        has_single = True
        body, texts = body[1:], texts[1:]
    if len(body) != 3 or not isinstance(body[0], ast.If) or not isinstance(body[1], ast.If) or texts[2] != "return default":
        raise Unrecognised("FieldWrapper.default: expected the source chain, the packaging block and `return default`")
    arms, els = if_chain(body[0])
    if _texts(els) != ["default = None"]:
        raise Unrecognised("FieldWrapper.default: else of the source chain")
    order, cached = [], None
    single_false_at = []
    for test, b in arms:
        t = unparse(test)
        if t not in SOURCES:
            raise Unrecognised(f"FieldWrapper.default: source test {t}")
        src = SOURCES[t]
        if src in order:
            raise Unrecognised(f"FieldWrapper.default: source {src} twice")
        order.append(src)
        bt = _texts(b)
        if src == "SManual":
            if bt == ["default = self._default", "single_value = False"]:
                single_false_at.append("manual")
            elif bt != ["default = self._default"]:
                raise Unrecognised("FieldWrapper.default: body of the `_default` arm")
        elif src == "SSubgroup":
            if bt != ["default = self.subgroup_default"]:
                raise Unrecognised("FieldWrapper.default: body of the subgroup arm")
        elif src == "SParentDefaults":
            if len(b) != 3 or not isinstance(b[0], ast.FunctionDef) or b[0].name != "_get_value":
                raise Unrecognised("FieldWrapper.default: body of the parent-defaults arm")
            gv = _texts(clean(b[0].body))
            if gv != ["if isinstance(dataclass_default, dict):\n    return dataclass_default.get(name)", "return getattr(dataclass_default, name)"]:
                raise Unrecognised("FieldWrapper.default: _get_value")
            if bt[1] != ("defaults = [_get_value(parent_default, self.field.name) for parent_default in self.parent.defaults "
                         "if parent_default not in (None, argparse.SUPPRESS)]"):
                raise Unrecognised("FieldWrapper.default: list of parent defaults")
            sel = b[2]
            if not isinstance(sel, ast.If) or unparse(sel.test) != "len(self.parent.defaults) == 1" \
                    or _texts(clean(sel.body)) != ["default = defaults[0]"]:
                raise Unrecognised("FieldWrapper.default: one parent default / several")
            e = _texts(clean(sel.orelse))
            if e == ["default = defaults", "single_value = False"]:
                single_false_at.append("many")
            elif e != ["default = defaults"]:
                raise Unrecognised("FieldWrapper.default: several parent defaults")
        elif src == "SFieldDefault":
            if bt != ["default = self.field.default"]:
                raise Unrecognised("FieldWrapper.default: body of the field-default arm")
        elif src == "SFactory":
            if bt == ["if self._default is None:\n    self._default = self.field.default_factory()", "default = self._default"]:
                cached = "true"
            elif bt == ["if self._default_factory_result is dataclasses.MISSING:\n    self._default_factory_result = self.field.default_factory()",
                        "default = self._default_factory_result"]:
                cached = "false"
            else:
                raise Unrecognised("FieldWrapper.default: body of the default_factory arm")
        elif src == "SStoreTrue":
            if bt != ["default = False"]:
                raise Unrecognised("FieldWrapper.default: store_true arm")
        elif src == "SStoreFalse":
            if bt != ["default = True"]:
                raise Unrecognised("FieldWrapper.default: store_false arm")
    if cached is None or "SManual" not in order or "SParentDefaults" not in order or "SFieldDefault" not in order:
        raise Unrecognised("FieldWrapper.default: a default source is missing")
    # packaging
    pk = body[1]
    if unparse(pk.test) != "self.is_reused and default is not None" or pk.orelse:
        raise Unrecognised("FieldWrapper.default: packaging guard")
    pb = clean(pk.body)
    pt = _texts(pb)
    if len(pb) != 4 or pt[0] != "n_destinations = len(self.destinations)" or pt[1] != "assert n_destinations >= 1" \
            or not isinstance(pb[2], ast.If) or not pt[3].startswith("assert len(default) == n_destinations"):
        raise Unrecognised("FieldWrapper.default: packaging block")
    parms, pels = if_chain(pb[2])
    if pels:
        raise Unrecognised("FieldWrapper.default: packaging chain has an else")
    chain = []
    for test, b in parms:
        t = unparse(test)
        if t not in PK_TESTS or _texts(b) != ["default = [default] * n_destinations"]:
            raise Unrecognised(f"FieldWrapper.default: packaging arm {t}")
        chain.append(PK_TESTS[t])
    uses_single = "PkSingleValue" in chain
    if uses_single != has_single or (uses_single and sorted(single_false_at) != ["manual", "many"]) \
            or (not uses_single and single_false_at):
        raise Unrecognised("FieldWrapper.default: `single_value` is not set exactly at the `_default` arm and the several-defaults arm")
    if uses_single and cached != "false":
        raise Unrecognised("FieldWrapper.default: `single_value` with a factory result cached in `_default`")
    return order, cached, chain


def _dcw(dtree):
    init = _nologs(find_def(dtree, "__init__", cls="DataclassWrapper"))
    text = _flat(unparse(init))
    for piece in ("self._defaults: list[DataclassT] = [default] if default else []",
                  "elif default not in (None, argparse.SUPPRESS):\n                field_default = getattr(default, field.name)",
                  "child_wrapper = DataclassWrapper(dataclass, name, parent=self, _field=field, default=field_default)",
                  "child_wrapper = DataclassWrapper(field_dataclass, name=field.name, parent=self, _field=field, default=field_default)",
                  "child_wrapper.optional = True",
                  "field_wrapper = self.field_wrapper_class(field, parent=self, prefix=self.prefix)",
                  "if field_default is not dataclasses.MISSING:\n                    field_wrapper.set_default(field_default)",
                  "elif dataclasses.is_dataclass(field_type) and field.default is not None:",
                  "elif utils.contains_dataclass_type_arg(field_type):"):
        if _flat(piece) not in text:
            raise Unrecognised(f"DataclassWrapper.__init__: `{piece[:70]}` not found")
    dfn = [n for n in find_class_body(dtree, "DataclassWrapper") if isinstance(n, ast.FunctionDef) and n.name == "defaults"
           and any(unparse(d) == "property" for d in n.decorator_list)]
    if len(dfn) != 1:
        raise Unrecognised("DataclassWrapper.defaults property")
    want = ["if self._defaults:\n    return self._defaults",
            "if self._field is None:\n    return []",
            "assert self.parent is not None",
            "if self.parent.defaults:\n    self._defaults = []\n    for default in self.parent.defaults:\n        if default not in (None, argparse.SUPPRESS):\n"
            "            default = getattr(default, self.name)\n        self._defaults.append(default)\nelse:\n"
            "    default_field_value = utils.default_value(self._field)\n    if default_field_value is MISSING:\n        self._defaults = []\n"
            "    else:\n        self._defaults = [default_field_value]",
            "return self._defaults"]
    if _texts(clean(dfn[0].body)) != want:
        raise Unrecognised("DataclassWrapper.defaults: body changed")
    mg = _nologs(find_def(dtree, "merge", cls="DataclassWrapper"))
    head = ["for dest in other.destinations:\n    if dest not in self.destinations:\n        self.destinations.append(dest)",
            "self.defaults.extend(other.defaults)"]
    tail = ["for child, other_child in zip(self._children, other._children):\n    child.merge(other_child)"]
    resets = {"for field_wrapper in self.fields:\n    field_wrapper.set_default(None)": "MrSelf",
              "for field_wrapper in other.fields:\n    field_wrapper.set_default(None)": "MrOther"}
    got = _texts(clean(mg.body))
    if got == head + tail:
        reset = "MrNone"
    elif len(got) == 4 and got[:2] == head and got[3:] == tail and got[2] in resets:
        reset = resets[got[2]]
    else:
        raise Unrecognised("DataclassWrapper.merge: body changed")
    # the debug messages of __init__ evaluate field_wrapper.default (-> parent.destinations is cached) and self.defaults (-> cached)
    raw_init = find_def(dtree, "__init__", cls="DataclassWrapper")
    logs = [unparse(n) for n in ast.walk(raw_init) if is_logger_call(n)]
    caches = ("true" if any("{field_wrapper.default}" in t for t in logs) and any("{self.defaults}" in t for t in logs) else "false")
    last = raw_init.body[-1]
    if caches == "true" and not (is_logger_call(last) and "{self.defaults}" in unparse(last)):
        raise Unrecognised("DataclassWrapper.__init__: self.defaults is not evaluated at the end of the constructor")
    return reset, caches


def find_class_body(tree, name):
    c = [n for n in tree.body if isinstance(n, ast.ClassDef) and n.name == name]
    if len(c) != 1:
        raise Unrecognised(f"class {name}")
    return c[0].body


def _default_value(utree):
    fn = _nologs(find_def(utree, "default_value"))
    if [a.arg for a in fn.args.args] != ["field"]:
        raise Unrecognised("utils.default_value signature")
    body = clean(fn.body)
    if len(body) != 1 or not isinstance(body[0], ast.If):
        raise Unrecognised("utils.default_value: expected one if/elif/else")
    arms, els = if_chain(body[0])
    if _texts(els) != ["return dataclasses.MISSING"]:
        raise Unrecognised("utils.default_value: else branch")
    table = {"field.default is not dataclasses.MISSING": ("DvDefault", ["return field.default"]),
             "field.default_factory is not dataclasses.MISSING": ("DvFactory", ["constructor = field.default_factory", "return constructor()"])}
    out = []
    for test, b in arms:
        t = unparse(test)
        if t not in table or _texts(b) != table[t][1] or table[t][0] in out:
            raise Unrecognised(f"utils.default_value: arm {t}")
        out.append(table[t][0])
    return out


POST_ARMS = {
    "self.is_enum": ("PaEnumByName", "if isinstance(raw_parsed_value, str):\n    raw_parsed_value = self.type[raw_parsed_value]\nreturn raw_parsed_value"),
    "self.is_choice": ("PaChoiceDict", "choice_dict = self.choice_dict\nif choice_dict:\n    key_type = type(next(iter(choice_dict.keys())))\n"
                       "    if self.is_list and isinstance(raw_parsed_value[0], key_type):\n        return [choice_dict[value] for value in raw_parsed_value]\n"
                       "    elif isinstance(raw_parsed_value, key_type):\n        return choice_dict[raw_parsed_value]\nreturn raw_parsed_value"),
    "self.is_tuple": ("PaTupleOfSeq", "if raw_parsed_value is not None and (not isinstance(raw_parsed_value, tuple)):\n    return tuple(raw_parsed_value)"),
    "self.is_bool": ("PaBoolId", "return raw_parsed_value"),
    "self.is_list": ("PaListOfTuple", "if isinstance(raw_parsed_value, tuple):\n    return list(raw_parsed_value)\nelse:\n    return raw_parsed_value"),
    "self.is_subparser": ("PaSubparserId", "return raw_parsed_value"),
    "utils.is_optional(self.type)": ("PaOptTupleOfList", "item_type = utils.get_args(self.type)[0]\nif utils.is_tuple(item_type) and isinstance(raw_parsed_value, list):\n"
                                     "    return tuple(raw_parsed_value)"),
    "self.type not in utils.builtin_types": ("PaCallType", "try:\n    return self.type(raw_parsed_value)\nexcept Exception as e:\n    return raw_parsed_value"),
}


def _postprocess(fwtree):
    fn = _nologs(find_def(fwtree, "postprocess", cls="FieldWrapper"))
    if [a.arg for a in fn.args.args] != ["self", "raw_parsed_value"]:
        raise Unrecognised("FieldWrapper.postprocess signature")
    body = clean(fn.body)
    if len(body) != 2 or not isinstance(body[0], ast.If) or unparse(body[1]) != "return raw_parsed_value":
        raise Unrecognised("FieldWrapper.postprocess: expected the type chain followed by `return raw_parsed_value`")
    arms, els = if_chain(body[0])
    if els:
        raise Unrecognised("FieldWrapper.postprocess: the chain has an else")
    out = []
    for test, b in arms:
        t = unparse(test)
        text = "\n".join(_texts([x for x in b if not isinstance(x, ast.Pass)]))
        if t not in POST_ARMS or POST_ARMS[t][1] != text:
            raise Unrecognised(f"FieldWrapper.postprocess: arm `{t}` has the body\n{text}")
        out.append(POST_ARMS[t][0])
    return out


def _duplicate(fwtree):
    """duplicate_if_needed: everything but the final chain must have the known text; the chain is the fact"""
    N = "num_instances_to_parse"
    fn = _nologs(find_def(fwtree, "duplicate_if_needed", cls="FieldWrapper"))
    if [a.arg for a in fn.args.args] != ["self", "parsed_values"]:
        raise Unrecognised("duplicate_if_needed signature")
    body = clean(fn.body)
    t = _texts(body)
    want = [f"{N} = len(self.destinations)", "assert self.is_reused", None,
            "if utils.is_list(self.type) and isinstance(parsed_values, tuple):\n    parsed_values = list(parsed_values)",
            "if not self.is_tuple and (not self.is_list) and isinstance(parsed_values, list):\n    nesting_level = utils.get_nesting_level(parsed_values)\n"
            f"    if nesting_level == 2 and len(parsed_values) == 1 and (len(parsed_values[0]) == {N}):\n"
            "        result: list = parsed_values[0]\n        return result",
            "if not isinstance(parsed_values, (list, tuple)):\n    parsed_values = [parsed_values]"]
    if len(body) != 7 or not t[2].startswith(f"assert {N} > 1") or any(w is not None and w != g for w, g in zip(want, t)):
        raise Unrecognised("duplicate_if_needed: statements before the final chain changed")
    arms, els = if_chain(body[6])

    def act(b):
        tt = _texts(b)
        if tt == ["return parsed_values"]:
            return "DAsIs"
        if tt == [f"return parsed_values * {N}"]:
            return "DTimesN"
        if len(b) == 1 and isinstance(b[0], ast.Raise) and unparse(b[0].exc).startswith("utils.InconsistentArgumentError("):
            return "DInconsistent"
        raise Unrecognised(f"duplicate_if_needed: arm body {tt}")

    tests = {f"len(parsed_values) == {N}": "LenEqN", "len(parsed_values) == 1": "LenEqOne"}
    chain = []
    for test, b in arms:
        if unparse(test) not in tests:
            raise Unrecognised(f"duplicate_if_needed: test {unparse(test)}")
        chain.append(f"({tests[unparse(test)]}, {act(b)})")
    if not els:
        raise Unrecognised("duplicate_if_needed: no else")
    fr = _nologs(find_def(fwtree, "is_reused", cls="FieldWrapper"))
    if _texts(clean(fr.body)) != ["return len(self.destinations) > 1"]:
        raise Unrecognised("FieldWrapper.is_reused")
    fd = [n for n in find_class_body(fwtree, "FieldWrapper") if isinstance(n, ast.FunctionDef) and n.name == "destinations"]
    if len(fd) != 1 or _texts(clean(fd[0].body)) != ["return [f'{parent_dest}.{self.name}' for parent_dest in self.parent.destinations]"]:
        raise Unrecognised("FieldWrapper.destinations")
    return chain, act(els)


def _pipeline(ptree):
    """add_arguments -> _add_arguments -> DataclassWrapper(default=...); parse_known_args -> _preprocessing / argparse / _postprocessing"""
    def kw_of(call_text_prefix, fn, kw):
        calls = [n for n in ast.walk(fn) if isinstance(n, ast.Call) and unparse(n.func) == call_text_prefix]
        if len(calls) != 1:
            raise Unrecognised(f"{fn.name}: call of {call_text_prefix}")
        d = {k.arg: unparse(k.value) for k in calls[0].keywords}
        return d

    add = _nologs(find_def(ptree, "add_arguments", cls="ArgumentParser"))
    d1 = kw_of("self._add_arguments", add, "default")
    if d1.get("dataclass_type") != "dataclass_type" or d1.get("name") != "dest":
        raise Unrecognised("add_arguments: class / destination forwarded to _add_arguments")
    if "self._wrappers.append(new_wrapper)" not in _texts(clean(add.body)):
        raise Unrecognised("add_arguments: the wrapper is not appended to self._wrappers")
    inner = _nologs(find_def(ptree, "_add_arguments", cls="ArgumentParser"))
    d2 = kw_of("dataclass_wrapper_class", inner, "default")
    if d2.get("dataclass") != "dataclass_type" or d2.get("name") != "name" or d2.get("parent") != "parent":
        raise Unrecognised("_add_arguments: arguments of the DataclassWrapper")
    fw = []
    for d in (d1, d2):
        v = d.get("default")
        if v == "default":
            fw.append(True)
        elif v in (None, "None"):
            fw.append(False)
        else:
            raise Unrecognised(f"default forwarded as {v}")
    forwards = "true" if all(fw) else "false"
    post = _nologs(find_def(ptree, "_postprocessing", cls="ArgumentParser"))
    want = ["self._remove_subgroups_from_namespace(parsed_args)", "wrappers = _flatten_wrappers(self._wrappers)",
            "constructor_arguments = self.constructor_arguments.copy()",
            "for wrapper in wrappers:\n    for destination in wrapper.destinations:\n        constructor_arguments.setdefault(destination, {})",
            "parsed_args, constructor_arguments = self._fill_constructor_arguments_with_fields(parsed_args, wrappers=wrappers, "
            "initial_constructor_arguments=constructor_arguments)",
            "parsed_args = self._instantiate_dataclasses(parsed_args, wrappers=wrappers, constructor_arguments=constructor_arguments)",
            "return parsed_args"]
    if _texts(clean(post.body)) != want:
        raise Unrecognised("_postprocessing: body changed")
    pre = _texts(clean(_nologs(find_def(ptree, "_preprocessing", cls="ArgumentParser")).body))
    need = ["wrapped_dataclasses = self._wrappers.copy()",
            "wrapped_dataclasses = self._conflict_resolver.resolve_and_flatten(wrapped_dataclasses)",
            "wrapped_dataclasses, chosen_subgroups = self._resolve_subgroups(wrappers=wrapped_dataclasses, args=args, namespace=namespace)",
            "wrapped_dataclasses = _flatten_wrappers(wrapped_dataclasses)",
            "for wrapped_dataclass in wrapped_dataclasses:\n    wrapped_dataclass.add_arguments(parser=self)",
            "self._wrappers = wrapped_dataclasses"]
    pos = [pre.index(n) if n in pre else -1 for n in need]
    if -1 in pos or pos != sorted(pos):
        raise Unrecognised("_preprocessing: resolve / flatten / add_arguments sequence changed")
    pk = _texts(clean(_nologs(find_def(ptree, "parse_known_args", cls="ArgumentParser")).body))
    need = ["self._preprocessing(args=args, namespace=namespace)", "parsed_args, unparsed_args = super().parse_known_args(args, namespace)",
            "parsed_args = self._postprocessing(parsed_args)", "return (parsed_args, unparsed_args)"]
    pos = [pk.index(n) if n in pk else -1 for n in need]
    if -1 in pos or pos != sorted(pos):
        raise Unrecognised("parse_known_args: _preprocessing / argparse / _postprocessing sequence changed")
    flat = _texts(clean(_nologs(find_def(ptree, "_flatten_wrappers")).body))
    if flat != ["_assert_no_duplicates(wrappers)", "roots_only = _unflatten_wrappers(wrappers)",
                "return sum(([w] + list(w.descendants) for w in roots_only), [])"]:
        raise Unrecognised("_flatten_wrappers: body changed")
    unf = _texts(clean(_nologs(find_def(ptree, "_unflatten_wrappers")).body))
    if unf != ["_assert_no_duplicates(wrappers)", "return [w for w in wrappers if w.parent is None]"]:
        raise Unrecognised("_unflatten_wrappers: body changed")
    return forwards, "true"


def _fix_merge(ctree):
    fn = _nologs(find_def(ctree, "_fix_conflict_merge", cls="ConflictResolver"))
    texts = _texts(clean(fn.body))
    need = ["fields = sorted(conflict.wrappers, key=lambda w: w.nesting_level)", "first_wrapper: FieldWrapper = fields[0]",
            "wrappers = wrappers_flat.copy()", "first_containing_dataclass: DataclassWrapper = first_wrapper.parent",
            "original_parent = first_containing_dataclass.parent", "wrappers = self._remove(first_containing_dataclass, wrappers)",
            "assert first_containing_dataclass.multiple", "wrappers = self._add(first_containing_dataclass, wrappers)",
            "if original_parent:\n    original_parent._children.append(first_containing_dataclass)", "return wrappers"]
    for n in need:
        if n not in texts:
            raise Unrecognised(f"_fix_conflict_merge: `{n[:60]}` not found")
    body = ("    containing_dataclass = wrapper.parent\n    wrappers = self._remove(containing_dataclass, wrappers)\n"
            "    first_containing_dataclass.merge(containing_dataclass)")
    if "for wrapper in conflict.wrappers[1:]:\n" + body in texts:
        rest_sorted = "false"
    elif "for wrapper in fields[1:]:\n" + body in texts:
        rest_sorted = "true"
    else:
        raise Unrecognised("_fix_conflict_merge: loop over the wrappers to absorb")
    rm = _nologs(find_def(ctree, "_remove", cls="ConflictResolver"))
    want = ["if isinstance(wrapper, FieldWrapper):\n    wrapper = wrapper.parent", "assert isinstance(wrapper, DataclassWrapper)",
            "wrappers.remove(wrapper)", "for child in wrapper.descendants:\n    wrappers.remove(child)",
            "for other_wrapper in wrappers:\n    if wrapper in other_wrapper._children:\n        other_wrapper._children.remove(wrapper)",
            "return wrappers"]
    if _texts(clean(rm.body)) != want:
        raise Unrecognised("ConflictResolver._remove: body changed")
    return rest_sorted


def _instantiate(ptree):
    fn = _nologs(find_def(ptree, "_instantiate_dataclasses", cls="ArgumentParser"))
    srt = [n for n in ast.walk(fn) if isinstance(n, ast.AnnAssign) and unparse(n.target) == "sorted_dc_wrappers"]
    srt += [n for n in ast.walk(fn) if isinstance(n, ast.Assign) and unparse(n.targets[0]) == "sorted_dc_wrappers"]
    if len(srt) != 1:
        raise Unrecognised("_instantiate_dataclasses: assignment to sorted_dc_wrappers")
    v = unparse(srt[0].value)
    if v == "sorted(wrappers, key=lambda w: w.nesting_level, reverse=True)":
        deepest = "true"
    elif v in ("sorted(wrappers, key=lambda w: w.nesting_level)", "sorted(wrappers, key=lambda w: w.nesting_level, reverse=False)"):
        deepest = "false"
    else:
        raise Unrecognised(f"_instantiate_dataclasses: order {v}")
    loops = [n for n in ast.walk(fn) if isinstance(n, ast.For)]
    heads = [(unparse(n.target), unparse(n.iter)) for n in loops]
    if heads != [("dc_wrapper", "sorted_dc_wrappers"), ("destination", "dc_wrapper.destinations")]:
        raise Unrecognised(f"_instantiate_dataclasses: loops {heads}")
    text = _flat(unparse(fn))
    for piece in ("constructor_args = constructor_arguments.pop(destination)",
                  "value_for_dataclass_field = _create_dataclass_instance(dc_wrapper, constructor, constructor_args)",
                  "constructor_arguments[parent_key][attr] = value_for_dataclass_field",
                  "setattr(parsed_args, destination, value_for_dataclass_field)",
                  "assert not constructor_arguments"):
        if piece not in text:
            raise Unrecognised(f"_instantiate_dataclasses: `{piece[:60]}` not found")
    fill = _flat(unparse(_nologs(find_def(ptree, "_fill_constructor_arguments_with_fields", cls="ArgumentParser"))))
    for piece in ("values = parsed_arg_values.pop(field.dest, field.default)",
                  "field(parser=self, namespace=parsed_args, values=values, constructor_arguments=constructor_arguments)"):
        if _flat(piece) not in fill:
            raise Unrecognised(f"_fill_constructor_arguments_with_fields: `{piece[:60]}` not found")
    return deepest


def _parse_helper(ptree):
    fn = find_def(ptree, "parse")
    body = clean(fn.body)
    texts = _texts(body)
    want_parser = ("parser = ArgumentParser(nested_mode=nested_mode, add_help=True, config_path=config_path, "
                   "conflict_resolution=conflict_resolution, add_option_string_dash_variants=add_option_string_dash_variants, "
                   "argument_generation_mode=argument_generation_mode, formatter_class=formatter_class, "
                   "add_config_path_arg=add_config_path_arg, **kwargs)")
    need = [want_parser, "parser.add_arguments(config_class, prefix=prefix, dest=dest, default=default)",
            "parsed_args = parser.parse_args(args)", "config: Dataclass = getattr(parsed_args, dest)", "return config"]
    pos = []
    for n in need:
        if n not in texts:
            raise Unrecognised(f"parse(): `{n[:60]}` not found")
        pos.append(texts.index(n))
    if pos != sorted(pos):
        raise Unrecognised("parse(): statement order")
    others = [t for t in texts if t not in need]
    allowed = ["if dest == add_config_path_arg:\n    raise ValueError('`add_config_path_arg` cannot be the same as `dest`.')",
               "if isinstance(args, str):\n    args = shlex.split(args)"]
    if others != allowed:
        raise Unrecognised("parse(): unexpected statements " + " | ".join(others)[:200])
    d = kw_defaults(fn)
    if unparse(d.get("nested_mode")) != "NestedMode.WITHOUT_ROOT" or unparse(d.get("default")) != "None" or unparse(d.get("dest")) != "'config'":
        raise Unrecognised("parse(): keyword defaults")
    # the wrapper FieldWrapper.__call__ distributes values over the destinations and post-processes each
    return "true"


def _call(fwtree):
    fn = _flat(unparse(_nologs(find_def(fwtree, "__call__", cls="FieldWrapper"))))
    for piece in ("if self.is_reused:\n        values = self.duplicate_if_needed(values)",
                  "else:\n        values = [values]",
                  "for destination, value in zip(self.destinations, values):",
                  "value = self.postprocess(value)",
                  "constructor_arguments[parent_dest][attribute] = value"):
        if _flat(piece) not in fn:
            raise Unrecognised(f"FieldWrapper.__call__: `{piece[:50]}` not found")


def emit(repo: str) -> str:
    ptree = parse(repo, "simple_parsing/parsing.py")
    fwtree = parse(repo, "simple_parsing/wrappers/field_wrapper.py")
    dtree = parse(repo, "simple_parsing/wrappers/dataclass_wrapper.py")
    ctree = parse(repo, "simple_parsing/conflicts.py")
    guard = _guard(ptree)
    order, cached, chain = _default_property(fwtree)
    reset, caches = _dcw(dtree)
    if cached == "true" and caches != "true":
        raise Unrecognised("a factory result cached in `_default` without the constructor evaluating field_wrapper.default")
    dv = _default_value(parse(repo, "simple_parsing/utils.py"))
    arms = _postprocess(fwtree)
    dup_chain, dup_else = _duplicate(fwtree)
    forwards, pipeline = _pipeline(ptree)
    rest_sorted = _fix_merge(ctree)
    deepest = _instantiate(ptree)
    parse_same = _parse_helper(ptree)
    _call(fwtree)
    return (
        "From SPV Require Import Base.Str Model.OptStr Model.Defaults Model.DefaultsSpec Gen.FactsConflicts.\nOpen Scope string_scope.\n"
        f"Definition guard_gen : guard_kind := {guard}.\n"
        f"Definition default_sources_gen : list dsource := [{'; '.join(order)}].\n"
        f"Definition factory_cached_gen : bool := {cached}.\n"
        f"Definition pk_chain_gen : list pk_test := [{'; '.join(chain)}].\n"
        f"Definition deepest_first_gen : bool := {deepest}.\n"
        f"Definition parse_is_parser_gen : bool := {parse_same}.\n"
        f"Definition merge_rest_sorted_gen : bool := {rest_sorted}.\n"
        f"Definition default_value_sources_gen : list dvsrc := [{'; '.join(dv)}].\n"
        f"Definition merge_resets_gen : mreset := {reset}.\n"
        f"Definition dup_chain_gen : list (len_test * dup_act) := [{'; '.join(dup_chain)}].\n"
        f"Definition dup_else_gen : dup_act := {dup_else}.\n"
        f"Definition init_caches_gen : bool := {caches}.\n"
        f"Definition forwards_default_gen : bool := {forwards}.\n"
        f"Definition pipeline_std_gen : bool := {pipeline}.\n"
        f"Definition postprocess_arms_gen : list post_arm := [{'; '.join(arms)}].\n"
        "(* the model instantiated with the regenerated facts *)\n"
        "Definition leaf_default_gen := leaf_default default_sources_gen factory_cached_gen.\n"
        "Definition run_fields_gen := run_fields guard_gen default_sources_gen factory_cached_gen default_value_sources_gen.\n"
        "Definition parse_plain_gen := parse_plain guard_gen default_sources_gen factory_cached_gen default_value_sources_gen.\n"
        "Definition parse_uniform_gen := parse_uniform default_sources_gen pk_chain_gen default_value_sources_gen dup_chain_gen dup_else_gen.\n"
        "Definition parse_merge_gen := parse_merge guard_gen default_sources_gen factory_cached_gen pk_chain_gen deepest_first_gen\n"
        "  merge_rest_sorted_gen max_attempts_gen default_value_sources_gen merge_resets_gen dup_chain_gen dup_else_gen init_caches_gen.\n"
        "Definition sp_parse_empty_gen := sp_parse_empty guard_gen default_sources_gen factory_cached_gen pk_chain_gen deepest_first_gen\n"
        "  parse_is_parser_gen merge_rest_sorted_gen max_attempts_gen resolve_gen default_value_sources_gen merge_resets_gen dup_chain_gen\n"
        "  dup_else_gen init_caches_gen forwards_default_gen pipeline_std_gen.\n"
        "Definition side_ok_gen := side_ok guard_gen pk_chain_gen max_attempts_gen.\n"
    )
