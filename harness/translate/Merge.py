"""Facts for ALWAYS_MERGE distribution (C11), fail closed:

  FieldWrapper.duplicate_if_needed : statement skeleton, the nesting-level short-cut (guards + conjuncts),
                                     the final if/elif/else chain on len(parsed_values)
  FieldWrapper.default             : the `if self.is_reused and default is not None:` packaging chain
  FieldWrapper.get_arg_options     : nargs for reused fields ('+' if required else '*'), converter of reused
                                     list/tuple/bool fields
  FieldWrapper.__call__            : reused values go through duplicate_if_needed, zip(destinations, values), postprocess
  utils._parse_container           : literal first / fall back on any exception; is a bare literal wrapped;
                                     separators of the fall-back parse
  utils.get_nesting_level          : shape check
  ConflictResolver._fix_conflict_merge / DataclassWrapper.merge : which wrapper survives, which are merged, de-duplication

Output: coq/Gen/FactsMerge.v (imports Model.Merge for the chain types, Gen.FactsBool for str2bool, instantiates the model)."""
from __future__ import annotations

import ast

from .pyast import Unrecognised, clean, const, find_def, if_chain, parse, unparse

N = "num_instances_to_parse"


def _texts(body):
    return [unparse(s) for s in body]


def _conj(test):
    if isinstance(test, ast.BoolOp) and isinstance(test.op, ast.And):
        return [unparse(v) for v in test.values]
    return [unparse(test)]


def _only_raise(body, cls):
    if len(body) != 1 or not isinstance(body[0], ast.Raise):
        return False
    exc = body[0].exc
    if isinstance(exc, ast.Call):
        exc = exc.func
    return unparse(exc) in (cls, "utils." + cls)


def _duplicate(fn):
    if [a.arg for a in fn.args.args] != ["self", "parsed_values"]:
        raise Unrecognised("duplicate_if_needed signature")
    body = clean(fn.body)
    t = _texts(body)
    if len(body) != 7:
        raise Unrecognised(f"duplicate_if_needed: {len(body)} top-level statements, expected 7")
    if t[0] != f"{N} = len(self.destinations)":
        raise Unrecognised("duplicate_if_needed: " + t[0])
    if t[1] != "assert self.is_reused" or not t[2].startswith(f"assert {N} > 1"):
        raise Unrecognised("duplicate_if_needed: assertions changed")
    if t[3] != "if utils.is_list(self.type) and isinstance(parsed_values, tuple):\n    parsed_values = list(parsed_values)":
        raise Unrecognised("duplicate_if_needed: tuple->list normalisation changed")
    if t[5] != "if not isinstance(parsed_values, (list, tuple)):\n    parsed_values = [parsed_values]":
        raise Unrecognised("duplicate_if_needed: scalar wrapping changed")
    # --- the short-cut
    sc = body[4]
    if not isinstance(sc, ast.If) or sc.orelse:
        raise Unrecognised("duplicate_if_needed: short-cut block")
    guards = []
    for g in _conj(sc.test):
        k = {"not self.is_tuple": "GNotTuple", "not self.is_list": "GNotList",
             "isinstance(parsed_values, list)": "GValuesIsList"}.get(g)
        if k is None:
            raise Unrecognised(f"duplicate_if_needed: short-cut guard {g}")
        guards.append(k)
    inner = clean(sc.body)
    if len(inner) != 2 or unparse(inner[0]) != "nesting_level = utils.get_nesting_level(parsed_values)":
        raise Unrecognised("duplicate_if_needed: short-cut body")
    iff = inner[1]
    if not isinstance(iff, ast.If) or iff.orelse:
        raise Unrecognised("duplicate_if_needed: short-cut condition")
    if _texts(clean(iff.body)) != ["result: list = parsed_values[0]", "return result"]:
        raise Unrecognised("duplicate_if_needed: short-cut result")
    conds = []
    for c in (iff.test.values if isinstance(iff.test, ast.BoolOp) and isinstance(iff.test.op, ast.And) else [iff.test]):
        if not (isinstance(c, ast.Compare) and len(c.ops) == 1 and isinstance(c.ops[0], ast.Eq)):
            raise Unrecognised(f"duplicate_if_needed: short-cut conjunct {unparse(c)}")
        l, r = unparse(c.left), c.comparators[0]
        if l == "nesting_level":
            conds.append(f"ScLevelEq {const(r, int)}")
        elif l == "len(parsed_values)":
            conds.append(f"ScLenEq {const(r, int)}")
        elif l == "len(parsed_values[0])" and unparse(r) == N:
            conds.append("ScFirstLenEqN")
        else:
            raise Unrecognised(f"duplicate_if_needed: short-cut conjunct {unparse(c)}")
    # --- the final chain
    arms, els = if_chain(body[6])

    def act(b):
        tt = _texts(b)
        if tt == ["return parsed_values"]:
            return "DAsIs"
        if tt == [f"return parsed_values * {N}"]:
            return "DTimesN"
        if _only_raise(b, "InconsistentArgumentError"):
            return "DInconsistent"
        raise Unrecognised(f"duplicate_if_needed: arm body {tt}")

    chain = []
    for test, b in arms:
        k = {f"len(parsed_values) == {N}": "LenEqN", "len(parsed_values) == 1": "LenEqOne"}.get(unparse(test))
        if k is None:
            raise Unrecognised(f"duplicate_if_needed: length test {unparse(test)}")
        chain.append(f"({k}, {act(b)})")
    if not els:
        raise Unrecognised("duplicate_if_needed: no else arm")
    return guards, conds, chain, act(els)


def _packaging(fn):
    body = clean(fn.body)
    if len(body) < 2 or unparse(body[-1]) != "return default":
        raise Unrecognised("FieldWrapper.default: does not end with `return default`")
    blk = body[-2]
    if not isinstance(blk, ast.If) or blk.orelse or unparse(blk.test) != "self.is_reused and default is not None":
        raise Unrecognised("FieldWrapper.default: packaging block guard")
    inner = clean(blk.body)
    t = _texts(inner)
    if len(inner) != 4 or t[0] != "n_destinations = len(self.destinations)" or t[1] != "assert n_destinations >= 1":
        raise Unrecognised("FieldWrapper.default: packaging block head")
    if not t[3].startswith("assert len(default) == n_destinations"):
        raise Unrecognised("FieldWrapper.default: final length assertion")
    arms, els = if_chain(inner[2])
    if els:
        raise Unrecognised("FieldWrapper.default: packaging chain has an else")
    chain = []
    for test, b in arms:
        if _texts(b) != ["default = [default] * n_destinations"]:
            raise Unrecognised(f"FieldWrapper.default: packaging arm body {_texts(b)}")
        k = {"utils.is_tuple_or_list(self.field.type) and len(default) != n_destinations": "PkContainerTypeAndLenNeN",
             "not isinstance(default, list)": "PkNotIsList", "single_value": "PkSingleValue"}.get(unparse(test))
        if k is None:
            raise Unrecognised(f"FieldWrapper.default: packaging test {unparse(test)}")
        chain.append(k)
    if "PkSingleValue" in chain:
        _single_value(body)
    return chain


def _single_value(body):
    """`single_value` must mean: the default is one value (not set from outside, not the per-destination list)."""
    if sum(1 for s in body if unparse(s) == "single_value = True") != 1:
        raise Unrecognised("FieldWrapper.default: single_value is not initialised to True exactly once")
    chains = [s for s in body if isinstance(s, ast.If) and unparse(s.test) == "self._default is not None"]
    if len(chains) != 1:
        raise Unrecognised("FieldWrapper.default: source chain")
    arms, els = if_chain(chains[0])
    falses = 0
    for test, b in arms:
        tt = _texts(b)
        if unparse(test) == "self._default is not None":
            if tt != ["default = self._default", "single_value = False"]:
                raise Unrecognised("FieldWrapper.default: manual-default arm")
            falses += 1
            continue
        inner = [s for s in b if isinstance(s, ast.If) and unparse(s.test) == "len(self.parent.defaults) == 1"]
        if inner:
            if len(inner) != 1 or _texts(clean(inner[0].body)) != ["default = defaults[0]"] \
                    or _texts(clean(inner[0].orelse)) != ["default = defaults", "single_value = False"]:
                raise Unrecognised("FieldWrapper.default: parent-defaults arm")
            falses += 1
            continue
        if any("single_value" in x for x in tt):
            raise Unrecognised("FieldWrapper.default: single_value assigned in an unexpected arm")
    if falses != 2 or any("single_value" in x for x in _texts(els)):
        raise Unrecognised("FieldWrapper.default: single_value assignments")


def _nargs(fn):
    body = clean(fn.body)
    if len(body) < 2 or unparse(body[-1]) != "return _arg_options":
        raise Unrecognised("get_arg_options: does not end with `return _arg_options`")
    blk = body[-2]
    if not isinstance(blk, ast.If) or blk.orelse or unparse(blk.test) != "self.is_reused":
        raise Unrecognised("get_arg_options: the last statement before the return is not `if self.is_reused:`")
    inner = clean(blk.body)
    if len(inner) != 1 or not isinstance(inner[0], ast.If) or unparse(inner[0].test) != "self.required":
        raise Unrecognised("get_arg_options: reused nargs block")

    def one(b):
        if len(b) != 1 or not isinstance(b[0], ast.Assign) or unparse(b[0].targets[0]) != "_arg_options['nargs']":
            raise Unrecognised("get_arg_options: reused nargs assignment")
        v = unparse(b[0].value)
        k = {"'+'": "NPlus", "'*'": "NStar", "argparse.ONE_OR_MORE": "NPlus", "argparse.ZERO_OR_MORE": "NStar"}.get(v)
        if k is None:
            raise Unrecognised(f"get_arg_options: reused nargs value {v}")
        return k

    req, opt = one(clean(inner[0].body)), one(clean(inner[0].orelse))
    # converters of reused container / bool fields: the arms of the big if/elif chain
    chain = [s for s in body if isinstance(s, ast.If) and unparse(s.test) == "self.is_choice"]
    if len(chain) != 1:
        raise Unrecognised("get_arg_options: the type dispatch chain was not found")
    arms, _ = if_chain(chain[0])
    seen = {}
    for test, b in arms:
        seen[unparse(test)] = b
    want = "type_fn = utils._parse_multiple_containers(self.type)"
    for key in ("self.is_list", "utils.is_tuple(self.type)"):
        if key not in seen:
            raise Unrecognised(f"get_arg_options: arm {key} missing")
        reused = [s for s in seen[key] if isinstance(s, ast.If) and unparse(s.test) == "self.is_reused"]
        if len(reused) != 1:
            raise Unrecognised(f"get_arg_options: arm {key}: reused branch")
        tt = _texts(clean(reused[0].body))
        if want not in tt or "_arg_options['type'] = type_fn" not in tt:
            raise Unrecognised(f"get_arg_options: arm {key}: reused converter changed")
    if "utils.is_bool(self.type)" not in seen:
        raise Unrecognised("get_arg_options: bool arm missing")
    reused = [s for s in seen["utils.is_bool(self.type)"] if isinstance(s, ast.If) and unparse(s.test) == "self.is_reused"]
    if len(reused) != 1 or "_arg_options['type'] = utils.str2bool" not in _texts(clean(reused[0].body)):
        raise Unrecognised("get_arg_options: reused bool converter changed")
    if "self.is_enum" not in seen:
        raise Unrecognised("get_arg_options: enum arm missing")
    tt = _texts(clean(seen["self.is_enum"]))
    if "_arg_options['choices'] = list((e.name for e in self.type))" not in tt or "_arg_options['type'] = str" not in tt:
        raise Unrecognised("get_arg_options: enum arm changed")
    return req, opt


def _call(fn):
    body = clean(fn.body)
    t = _texts(body)
    ifs = [s for s in body if isinstance(s, ast.If) and unparse(s.test) == "self.is_reused"]
    if len(ifs) != 1 or _texts(clean(ifs[0].body)) != ["values = self.duplicate_if_needed(values)"] \
            or _texts(clean(ifs[0].orelse)) != ["values = [values]"]:
        raise Unrecognised("__call__: reused values no longer go through duplicate_if_needed")
    loops = [s for s in body if isinstance(s, ast.For)]
    if len(loops) != 1 or unparse(loops[0].target) != "(destination, value)" or unparse(loops[0].iter) != "zip(self.destinations, values)":
        raise Unrecognised("__call__: destination loop")
    lt = _texts(clean(loops[0].body))
    for need in ("parent_dest, attribute = utils.split_dest(destination)", "value = self.postprocess(value)",
                 "constructor_arguments[parent_dest][attribute] = value"):
        if need not in lt:
            raise Unrecognised(f"__call__: loop body lacks `{need}`")
    if lt.index("value = self.postprocess(value)") > lt.index("constructor_arguments[parent_dest][attribute] = value"):
        raise Unrecognised("__call__: postprocess after the store")


def _destinations(cls_body):
    fn = [n for n in cls_body if isinstance(n, ast.FunctionDef) and n.name == "destinations"]
    if len(fn) != 1:
        raise Unrecognised("FieldWrapper.destinations")
    t = _texts(clean(fn[0].body))
    if t != ["return [f'{parent_dest}.{self.name}' for parent_dest in self.parent.destinations]"]:
        raise Unrecognised("FieldWrapper.destinations body")


def _parse_container(utils):
    pmc = find_def(utils, "_parse_multiple_containers")
    pt = _texts(clean(pmc.body))
    if "values = _parse_container(container_type)(value)" not in "\n".join(pt):
        raise Unrecognised("_parse_multiple_containers no longer delegates to _parse_container")
    kd = {p.arg: d for p, d in zip(pmc.args.args[-len(pmc.args.defaults):], pmc.args.defaults)}
    if "append_action" not in kd or const(kd["append_action"], bool) is not False:
        raise Unrecognised("_parse_multiple_containers: append_action default")
    pc = find_def(utils, "_parse_container")
    body = clean(pc.body)
    t = _texts(body)
    if "T = get_argparse_type_for_container(container_type)" not in t or \
            "factory = tuple if is_tuple(container_type) else list" not in t:
        raise Unrecognised("_parse_container: T / factory")
    inner = {n.name: n for n in body if isinstance(n, ast.FunctionDef)}
    for k in ("_parse", "_parse_literal", "_fallback_parse"):
        if k not in inner:
            raise Unrecognised(f"_parse_container: inner function {k}")
    # _parse: try literal, on ANY exception fall back
    pb = clean(inner["_parse"].body)
    tries = [s for s in pb if isinstance(s, ast.Try)]
    if len(tries) != 1:
        raise Unrecognised("_parse: try block")
    tr = tries[0]
    if _texts(clean(tr.body)) != ["values = _parse_literal(value)"] or len(tr.handlers) != 1 or tr.orelse or tr.finalbody:
        raise Unrecognised("_parse: try body")
    h = tr.handlers[0]
    if h.type is None or unparse(h.type) != "Exception" or _texts(clean(h.body)) != ["values = _fallback_parse(value)"]:
        raise Unrecognised("_parse: except handler")
    if _texts(pb)[-1] != "return values":
        raise Unrecognised("_parse: return")
    # _parse_literal
    lb = clean(inner["_parse_literal"].body)
    lt = _texts(lb)
    if lt[0] != "literal = ast.literal_eval(value)" or len(lb) != 2 or not isinstance(lb[1], ast.If):
        raise Unrecognised("_parse_literal: shape")
    iff = lb[1]
    if unparse(iff.test) != "not isinstance(literal, (list, tuple))":
        raise Unrecognised("_parse_literal: test")
    bare = _texts(clean(iff.body))
    if bare == ["return T(literal)"]:
        wrapped = "false"
    elif bare in (["return factory([T(literal)])"], ["return factory((T(literal),))"]):
        wrapped = "true"
    else:
        raise Unrecognised(f"_parse_literal: bare-literal arm {bare}")
    if _texts(clean(iff.orelse)) != ["container = literal", "values = factory((T(v) for v in container))", "return values"]:
        raise Unrecognised("_parse_literal: container arm")
    # _fallback_parse
    fb = clean(inner["_fallback_parse"].body)
    ft = _texts(fb)
    if len(fb) != 8:
        raise Unrecognised(f"_fallback_parse: {len(fb)} statements, expected 8")
    if ft[0] != "v = ' '.join(v.split())" or ft[1] != "if v.startswith('[') and v.endswith(']'):\n    v = v[1:-1]":
        raise Unrecognised("_fallback_parse: normalisation")
    if not (isinstance(fb[2], ast.Assign) and unparse(fb[2].targets[0]) == "separator"):
        raise Unrecognised("_fallback_parse: default separator")
    dsep = const(fb[2].value, str)
    loop = fb[3]
    if not (isinstance(loop, ast.For) and unparse(loop.target) == "sep" and isinstance(loop.iter, (ast.List, ast.Tuple))
            and _texts(clean(loop.body)) == ["if sep in v:\n    separator = sep"]):
        raise Unrecognised("_fallback_parse: separator loop")
    seps = [const(e, str) for e in loop.iter.elts]
    for s in seps + [dsep]:
        if len(s) != 1 or not (32 <= ord(s) < 127):
            raise Unrecognised(f"_fallback_parse: separator {s!r} is not one printable character")
    if ft[4:] != ["str_values = [v.strip() for v in v.split(separator)]", "T_values = [T(v_str) for v_str in str_values]",
                  "values = factory((v for v in T_values))", "return values"]:
        raise Unrecognised("_fallback_parse: split / convert")
    # get_nesting_level
    gnl = find_def(utils, "get_nesting_level")
    want = ("if not isinstance(possibly_nested_list, (list, tuple)):\n    return 0\n"
            "elif len(possibly_nested_list) == 0:\n    return 1\n"
            "else:\n    return 1 + max((get_nesting_level(item) for item in possibly_nested_list))")
    if _texts(clean(gnl.body)) != [want]:
        raise Unrecognised("get_nesting_level changed")
    # get_argparse_type_for_container ends in `return T` for plain item types
    g = find_def(utils, "get_argparse_type_for_container")
    gt = _texts(clean(g.body))
    if gt[0] != "T = get_item_type(container_type)" or gt[-1] != "return T":
        raise Unrecognised("get_argparse_type_for_container")
    return wrapped, seps, dsep


def _merge(conflicts, dcw):
    fn = find_def(conflicts, "_fix_conflict_merge", "ConflictResolver")
    t = _texts(clean(fn.body))
    src = "\n".join(t)
    if "fields = sorted(conflict.wrappers, key=lambda w: w.nesting_level)" not in t:
        raise Unrecognised("_fix_conflict_merge: sort")
    if "first_wrapper: FieldWrapper = fields[0]" in t:
        first_sorted = "true"
    elif "first_wrapper: FieldWrapper = conflict.wrappers[0]" in t:
        first_sorted = "false"
    else:
        raise Unrecognised("_fix_conflict_merge: first wrapper")
    loops = [s for s in clean(fn.body) if isinstance(s, ast.For)]
    loops = [l for l in loops if unparse(l.target) == "wrapper"]
    if len(loops) != 1:
        raise Unrecognised("_fix_conflict_merge: merge loop")
    it = unparse(loops[0].iter)
    if it == "conflict.wrappers[1:]":
        rest_unsorted = "true"
    elif it == "fields[1:]":
        rest_unsorted = "false"
    else:
        raise Unrecognised(f"_fix_conflict_merge: merge loop over {it}")
    if _texts(clean(loops[0].body)) != ["containing_dataclass = wrapper.parent", "wrappers = self._remove(containing_dataclass, wrappers)",
                                        "first_containing_dataclass.merge(containing_dataclass)"]:
        raise Unrecognised("_fix_conflict_merge: merge loop body")
    for need in ("first_containing_dataclass: DataclassWrapper = first_wrapper.parent",
                 "wrappers = self._remove(first_containing_dataclass, wrappers)",
                 "wrappers = self._add(first_containing_dataclass, wrappers)"):
        if need not in src:
            raise Unrecognised(f"_fix_conflict_merge: lacks `{need}`")
    rm = find_def(conflicts, "_remove", "ConflictResolver")
    if "wrappers.remove(wrapper)" not in _texts(clean(rm.body)):
        raise Unrecognised("_remove: list.remove")
    mg = find_def(dcw, "merge", "DataclassWrapper")
    mt = _texts(clean(mg.body))
    if "for dest in other.destinations:\n    if dest not in self.destinations:\n        self.destinations.append(dest)" in mt:
        dedupes = "true"
    elif "self.destinations.extend(other.destinations)" in mt:
        dedupes = "false"
    else:
        raise Unrecognised("DataclassWrapper.merge: destinations")
    for need in ("self.defaults.extend(other.defaults)", "for field_wrapper in self.fields:\n    field_wrapper.set_default(None)",
                 "for child, other_child in zip(self._children, other._children):\n    child.merge(other_child)"):
        if need not in mt:
            raise Unrecognised(f"DataclassWrapper.merge: lacks `{need}`")
    return first_sorted, rest_unsorted, dedupes


def _cchar(s):
    return '"' + ('""' if s == '"' else s) + '"%char'


def emit(repo: str) -> str:
    fw = parse(repo, "simple_parsing/wrappers/field_wrapper.py")
    utils = parse(repo, "simple_parsing/utils.py")
    conflicts = parse(repo, "simple_parsing/conflicts.py")
    dcw = parse(repo, "simple_parsing/wrappers/dataclass_wrapper.py")
    cls = [n for n in fw.body if isinstance(n, ast.ClassDef) and n.name == "FieldWrapper"]
    if len(cls) != 1:
        raise Unrecognised("FieldWrapper")
    guards, conds, chain, els = _duplicate(find_def(fw, "duplicate_if_needed", "FieldWrapper"))
    pk = _packaging(find_def(fw, "default", "FieldWrapper"))
    req, opt = _nargs(find_def(fw, "get_arg_options", "FieldWrapper"))
    _call(find_def(fw, "__call__", "FieldWrapper"))
    _destinations(cls[0].body)
    wrapped, seps, dsep = _parse_container(utils)
    first_sorted, rest_unsorted, dedupes = _merge(conflicts, dcw)
    inst = ("str2bool_gen DUP_CHAIN DUP_ELSE SC_GUARDS SC_CONDS PK_CHAIN NARGS_REQUIRED NARGS_OPTIONAL BARE_LITERAL_WRAPPED "
            "FALLBACK_SEPS FALLBACK_DEFAULT_SEP MERGE_FIRST_SORTED MERGE_REST_UNSORTED MERGE_DEDUPES")
    return (
        "From SPV Require Import Base.Str Model.Merge Gen.FactsBool.\nOpen Scope string_scope.\n"
        f"Definition DUP_CHAIN : list (len_test * dup_act) := [{'; '.join(chain)}].\n"
        f"Definition DUP_ELSE : dup_act := {els}.\n"
        f"Definition SC_GUARDS : list sc_guard := [{'; '.join(guards)}].\n"
        f"Definition SC_CONDS : list sc_atom := [{'; '.join(conds)}].\n"
        f"Definition PK_CHAIN : list pk_test := [{'; '.join(pk)}].\n"
        f"Definition NARGS_REQUIRED : nargs := {req}.\n"
        f"Definition NARGS_OPTIONAL : nargs := {opt}.\n"
        f"Definition BARE_LITERAL_WRAPPED : bool := {wrapped}.\n"
        f"Definition FALLBACK_SEPS : list ascii := [{'; '.join(_cchar(s) for s in seps)}].\n"
        f"Definition FALLBACK_DEFAULT_SEP : ascii := {_cchar(dsep)}.\n"
        f"Definition MERGE_FIRST_SORTED : bool := {first_sorted}.\n"
        f"Definition MERGE_REST_UNSORTED : bool := {rest_unsorted}.\n"
        f"Definition MERGE_DEDUPES : bool := {dedupes}.\n"
        "(* the model instantiated with the regenerated facts *)\n"
        f"Definition convert_gen := convert str2bool_gen BARE_LITERAL_WRAPPED FALLBACK_SEPS FALLBACK_DEFAULT_SEP.\n"
        f"Definition package_default_gen := package_default PK_CHAIN.\n"
        f"Definition duplicate_gen := duplicate DUP_CHAIN DUP_ELSE SC_GUARDS SC_CONDS.\n"
        f"Definition collect_gen := collect str2bool_gen NARGS_REQUIRED NARGS_OPTIONAL BARE_LITERAL_WRAPPED FALLBACK_SEPS FALLBACK_DEFAULT_SEP.\n"
        f"Definition distribute_gen := distribute str2bool_gen DUP_CHAIN DUP_ELSE SC_GUARDS SC_CONDS NARGS_REQUIRED NARGS_OPTIONAL "
        "BARE_LITERAL_WRAPPED FALLBACK_SEPS FALLBACK_DEFAULT_SEP.\n"
        f"Definition merge_dests_gen := merge_dests MERGE_DEDUPES.\n"
        f"Definition fix_conflict_merge_gen := fix_conflict_merge MERGE_FIRST_SORTED MERGE_REST_UNSORTED MERGE_DEDUPES.\n"
        f"Definition run_gen := run {inst}.\n"
    )
