"""Facts for ALWAYS_MERGE distribution (C11), fail closed:

  FieldWrapper.duplicate_if_needed : statement skeleton, the nesting-level short-cut (guards + conjuncts),
                                     the final if/elif/else chain on len(parsed_values)
  FieldWrapper.default             : the `if self.is_reused and default is not None:` packaging chain
  FieldWrapper.get_arg_options     : nargs for reused fields ('+' if required else '*'), converter of reused
                                     list/tuple/bool fields
  FieldWrapper.__call__            : reused values go through duplicate_if_needed, zip(destinations, values), postprocess
  utils._parse_container           : literal first / fall back on any exception; is a bare literal wrapped;
                                     separators of the fall-back parse
  utils.get_nesting_level          : shape check
  ConflictResolver._fix_conflict_merge / DataclassWrapper.merge : which wrapper survives, which are merged, de-duplication
  FieldWrapper.postprocess         : the if/elif chain (test, action) and the final `return raw_parsed_value`
  FieldWrapper.default             : the order of the sources (manual / subgroup / parent defaults / field default / factory / ..)
  DataclassWrapper.defaults        : fresh [] for a top-level wrapper without default; member wrappers seeded from the field
  FieldWrapper.required            : the sequence of `if test: return value`
  ConflictResolver.get_conflict, parsing._flatten_wrappers, DataclassWrapper.descendants/destinations, Wrapper.nesting_level :
                                     the wrappers of a conflict come in registration order; nested destinations follow the parent's
  field_parsing._parsing_fns / get_parsing_fn : the primitive types parsed with their own constructor

Output: coq/Gen/FactsMerge.v (imports Model.Merge for the chain types, Gen.FactsBool for str2bool, instantiates the model)."""
from __future__ import annotations

import ast

from .pyast import Unrecognised, clean, const, find_def, if_chain, parse, unparse

N = "num_instances_to_parse"


def _texts(body):
    return [unparse(s) for s in body]


def _conj(test):
    if isinstance(test, ast.BoolOp) and isinstance(test.op, ast.And):
        return [unparse(v) for v in test.values]
    return [unparse(test)]


def _only_raise(body, cls):
    if len(body) != 1 or not isinstance(body[0], ast.Raise):
        return False
    exc = body[0].exc
    if isinstance(exc, ast.Call):
        exc = exc.func
    return unparse(exc) in (cls, "utils." + cls)


def _duplicate(fn):
    if [a.arg for a in fn.args.args] != ["self", "parsed_values"]:
        raise Unrecognised("duplicate_if_needed signature")
    body = clean(fn.body)
    t = _texts(body)
    if len(body) != 7:
        raise Unrecognised(f"duplicate_if_needed: {len(body)} top-level statements, expected 7")
    if t[0] != f"{N} = len(self.destinations)":
        raise Unrecognised("duplicate_if_needed: " + t[0])
    if t[1] != "assert self.is_reused" or not t[2].startswith(f"assert {N} > 1"):
        raise Unrecognised("duplicate_if_needed: assertions changed")
    if t[3] != "if utils.is_list(self.type) and isinstance(parsed_values, tuple):\n    parsed_values = list(parsed_values)":
        raise Unrecognised("duplicate_if_needed: tuple->list normalisation changed")
    if t[5] != "if not isinstance(parsed_values, (list, tuple)):\n    parsed_values = [parsed_values]":
        raise Unrecognised("duplicate_if_needed: scalar wrapping changed")
    # --- the short-cut
    sc = body[4]
    if not isinstance(sc, ast.If) or sc.orelse:
        raise Unrecognised("duplicate_if_needed: short-cut block")
    guards = []
    for g in _conj(sc.test):
        k = {"not self.is_tuple": "GNotTuple", "not self.is_list": "GNotList",
             "isinstance(parsed_values, list)": "GValuesIsList"}.get(g)
        if k is None:
            raise Unrecognised(f"duplicate_if_needed: short-cut guard {g}")
        guards.append(k)
    inner = clean(sc.body)
    if len(inner) != 2 or unparse(inner[0]) != "nesting_level = utils.get_nesting_level(parsed_values)":
        raise Unrecognised("duplicate_if_needed: short-cut body")
    iff = inner[1]
    if not isinstance(iff, ast.If) or iff.orelse:
        raise Unrecognised("duplicate_if_needed: short-cut condition")
    if _texts(clean(iff.body)) != ["result: list = parsed_values[0]", "return result"]:
        raise Unrecognised("duplicate_if_needed: short-cut result")
    conds = []
    for c in (iff.test.values if isinstance(iff.test, ast.BoolOp) and isinstance(iff.test.op, ast.And) else [iff.test]):
        if not (isinstance(c, ast.Compare) and len(c.ops) == 1 and isinstance(c.ops[0], ast.Eq)):
            raise Unrecognised(f"duplicate_if_needed: short-cut conjunct {unparse(c)}")
        l, r = unparse(c.left), c.comparators[0]
        if l == "nesting_level":
            conds.append(f"ScLevelEq {const(r, int)}")
        elif l == "len(parsed_values)":
            conds.append(f"ScLenEq {const(r, int)}")
        elif l == "len(parsed_values[0])" and unparse(r) == N:
            conds.append("ScFirstLenEqN")
        else:
            raise Unrecognised(f"duplicate_if_needed: short-cut conjunct {unparse(c)}")
    # --- the final chain
    arms, els = if_chain(body[6])

    def act(b):
        tt = _texts(b)
        if tt == ["return parsed_values"]:
            return "DAsIs"
        if tt == [f"return parsed_values * {N}"]:
            return "DTimesN"
        if _only_raise(b, "InconsistentArgumentError"):
            return "DInconsistent"
        raise Unrecognised(f"duplicate_if_needed: arm body {tt}")

    chain = []
    for test, b in arms:
        k = {f"len(parsed_values) == {N}": "LenEqN", "len(parsed_values) == 1": "LenEqOne"}.get(unparse(test))
        if k is None:
            raise Unrecognised(f"duplicate_if_needed: length test {unparse(test)}")
        chain.append(f"({k}, {act(b)})")
    if not els:
        raise Unrecognised("duplicate_if_needed: no else arm")
    return guards, conds, chain, act(els)


def _packaging(fn):
    body = clean(fn.body)
    if len(body) < 2 or unparse(body[-1]) != "return default":
        raise Unrecognised("FieldWrapper.default: does not end with `return default`")
    blk = body[-2]
    if not isinstance(blk, ast.If) or blk.orelse or unparse(blk.test) != "self.is_reused and default is not None":
        raise Unrecognised("FieldWrapper.default: packaging block guard")
    inner = clean(blk.body)
    t = _texts(inner)
    if len(inner) != 4 or t[0] != "n_destinations = len(self.destinations)" or t[1] != "assert n_destinations >= 1":
        raise Unrecognised("FieldWrapper.default: packaging block head")
    if not t[3].startswith("assert len(default) == n_destinations"):
        raise Unrecognised("FieldWrapper.default: final length assertion")
    arms, els = if_chain(inner[2])
    if els:
        raise Unrecognised("FieldWrapper.default: packaging chain has an else")
    chain = []
    for test, b in arms:
        if _texts(b) != ["default = [default] * n_destinations"]:
            raise Unrecognised(f"FieldWrapper.default: packaging arm body {_texts(b)}")
        k = {"utils.is_tuple_or_list(self.field.type) and len(default) != n_destinations": "PkContainerTypeAndLenNeN",
             "not isinstance(default, list)": "PkNotIsList", "single_value": "PkSingleValue"}.get(unparse(test))
        if k is None:
            raise Unrecognised(f"FieldWrapper.default: packaging test {unparse(test)}")
        chain.append(k)
    if "PkSingleValue" in chain:
        _single_value(body)
    return chain


def _single_value(body):
    """`single_value` must mean: the default is one value (not set from outside, not the per-destination list)."""
    if sum(1 for s in body if unparse(s) == "single_value = True") != 1:
        raise Unrecognised("FieldWrapper.default: single_value is not initialised to True exactly once")
    chains = [s for s in body if isinstance(s, ast.If) and unparse(s.test) == "self._default is not None"]
    if len(chains) != 1:
        raise Unrecognised("FieldWrapper.default: source chain")
    arms, els = if_chain(chains[0])
    falses = 0
    for test, b in arms:
        tt = _texts(b)
        if unparse(test) == "self._default is not None":
            if tt != ["default = self._default", "single_value = False"]:
                raise Unrecognised("FieldWrapper.default: manual-default arm")
            falses += 1
            continue
        inner = [s for s in b if isinstance(s, ast.If) and unparse(s.test) == "len(self.parent.defaults) == 1"]
        if inner:
            if len(inner) != 1 or _texts(clean(inner[0].body)) != ["default = defaults[0]"] \
                    or _texts(clean(inner[0].orelse)) != ["default = defaults", "single_value = False"]:
                raise Unrecognised("FieldWrapper.default: parent-defaults arm")
            falses += 1
            continue
        if any("single_value" in x for x in tt):
            raise Unrecognised("FieldWrapper.default: single_value assigned in an unexpected arm")
    if falses != 2 or any("single_value" in x for x in _texts(els)):
        raise Unrecognised("FieldWrapper.default: single_value assignments")


def _nargs(fn):
    body = clean(fn.body)
    if len(body) < 2 or unparse(body[-1]) != "return _arg_options":
        raise Unrecognised("get_arg_options: does not end with `return _arg_options`")
    blk = body[-2]
    if not isinstance(blk, ast.If) or blk.orelse or unparse(blk.test) != "self.is_reused":
        raise Unrecognised("get_arg_options: the last statement before the return is not `if self.is_reused:`")
    inner = clean(blk.body)
    if len(inner) != 1 or not isinstance(inner[0], ast.If) or unparse(inner[0].test) != "self.required":
        raise Unrecognised("get_arg_options: reused nargs block")

    def one(b):
        if len(b) != 1 or not isinstance(b[0], ast.Assign) or unparse(b[0].targets[0]) != "_arg_options['nargs']":
            raise Unrecognised("get_arg_options: reused nargs assignment")
        v = unparse(b[0].value)
        k = {"'+'": "NPlus", "'*'": "NStar", "argparse.ONE_OR_MORE": "NPlus", "argparse.ZERO_OR_MORE": "NStar"}.get(v)
        if k is None:
            raise Unrecognised(f"get_arg_options: reused nargs value {v}")
        return k

    req, opt = one(clean(inner[0].body)), one(clean(inner[0].orelse))
    # converters of reused container / bool fields: the arms of the big if/elif chain
    chain = [s for s in body if isinstance(s, ast.If) and unparse(s.test) == "self.is_choice"]
    if len(chain) != 1:
        raise Unrecognised("get_arg_options: the type dispatch chain was not found")
    arms, _ = if_chain(chain[0])
    seen = {}
    for test, b in arms:
        seen[unparse(test)] = b
    want = "type_fn = utils._parse_multiple_containers(self.type)"
    for key in ("self.is_list", "utils.is_tuple(self.type)"):
        if key not in seen:
            raise Unrecognised(f"get_arg_options: arm {key} missing")
        reused = [s for s in seen[key] if isinstance(s, ast.If) and unparse(s.test) == "self.is_reused"]
        if len(reused) != 1:
            raise Unrecognised(f"get_arg_options: arm {key}: reused branch")
        tt = _texts(clean(reused[0].body))
        if want not in tt or "_arg_options['type'] = type_fn" not in tt:
            raise Unrecognised(f"get_arg_options: arm {key}: reused converter changed")
    if "utils.is_bool(self.type)" not in seen:
        raise Unrecognised("get_arg_options: bool arm missing")
    reused = [s for s in seen["utils.is_bool(self.type)"] if isinstance(s, ast.If) and unparse(s.test) == "self.is_reused"]
    if len(reused) != 1 or "_arg_options['type'] = utils.str2bool" not in _texts(clean(reused[0].body)):
        raise Unrecognised("get_arg_options: reused bool converter changed")
    if "self.is_enum" not in seen:
        raise Unrecognised("get_arg_options: enum arm missing")
    tt = _texts(clean(seen["self.is_enum"]))
    if "_arg_options['choices'] = list((e.name for e in self.type))" not in tt or "_arg_options['type'] = str" not in tt:
        raise Unrecognised("get_arg_options: enum arm changed")
    return req, opt


def _call(fn):
    body = clean(fn.body)
    t = _texts(body)
    ifs = [s for s in body if isinstance(s, ast.If) and unparse(s.test) == "self.is_reused"]
    if len(ifs) != 1 or _texts(clean(ifs[0].body)) != ["values = self.duplicate_if_needed(values)"] \
            or _texts(clean(ifs[0].orelse)) != ["values = [values]"]:
        raise Unrecognised("__call__: reused values no longer go through duplicate_if_needed")
    loops = [s for s in body if isinstance(s, ast.For)]
    if len(loops) != 1 or unparse(loops[0].target) != "(destination, value)" or unparse(loops[0].iter) != "zip(self.destinations, values)":
        raise Unrecognised("__call__: destination loop")
    lt = _texts(clean(loops[0].body))
    for need in ("parent_dest, attribute = utils.split_dest(destination)", "value = self.postprocess(value)",
                 "constructor_arguments[parent_dest][attribute] = value"):
        if need not in lt:
            raise Unrecognised(f"__call__: loop body lacks `{need}`")
    if lt.index("value = self.postprocess(value)") > lt.index("constructor_arguments[parent_dest][attribute] = value"):
        raise Unrecognised("__call__: postprocess after the store")


def _destinations(cls_body):
    fn = [n for n in cls_body if isinstance(n, ast.FunctionDef) and n.name == "destinations"]
    if len(fn) != 1:
        raise Unrecognised("FieldWrapper.destinations")
    t = _texts(clean(fn[0].body))
    if t != ["return [f'{parent_dest}.{self.name}' for parent_dest in self.parent.destinations]"]:
        raise Unrecognised("FieldWrapper.destinations body")


def _parse_container(utils):
    pmc = find_def(utils, "_parse_multiple_containers")
    pt = _texts(clean(pmc.body))
    if "values = _parse_container(container_type)(value)" not in "\n".join(pt):
        raise Unrecognised("_parse_multiple_containers no longer delegates to _parse_container")
    kd = {p.arg: d for p, d in zip(pmc.args.args[-len(pmc.args.defaults):], pmc.args.defaults)}
    if "append_action" not in kd or const(kd["append_action"], bool) is not False:
        raise Unrecognised("_parse_multiple_containers: append_action default")
    pc = find_def(utils, "_parse_container")
    body = clean(pc.body)
    t = _texts(body)
    if "T = get_argparse_type_for_container(container_type)" not in t or \
            "factory = tuple if is_tuple(container_type) else list" not in t:
        raise Unrecognised("_parse_container: T / factory")
    inner = {n.name: n for n in body if isinstance(n, ast.FunctionDef)}
    for k in ("_parse", "_parse_literal", "_fallback_parse"):
        if k not in inner:
            raise Unrecognised(f"_parse_container: inner function {k}")
    # _parse: try literal, on ANY exception fall back
    pb = clean(inner["_parse"].body)
    tries = [s for s in pb if isinstance(s, ast.Try)]
    if len(tries) != 1:
        raise Unrecognised("_parse: try block")
    tr = tries[0]
    if _texts(clean(tr.body)) != ["values = _parse_literal(value)"] or len(tr.handlers) != 1 or tr.orelse or tr.finalbody:
        raise Unrecognised("_parse: try body")
    h = tr.handlers[0]
    if h.type is None or unparse(h.type) != "Exception" or _texts(clean(h.body)) != ["values = _fallback_parse(value)"]:
        raise Unrecognised("_parse: except handler")
    if _texts(pb)[-1] != "return values":
        raise Unrecognised("_parse: return")
    # _parse_literal
    lb = clean(inner["_parse_literal"].body)
    lt = _texts(lb)
    if lt[0] != "literal = ast.literal_eval(value)" or len(lb) != 2 or not isinstance(lb[1], ast.If):
        raise Unrecognised("_parse_literal: shape")
    iff = lb[1]
    if unparse(iff.test) != "not isinstance(literal, (list, tuple))":
        raise Unrecognised("_parse_literal: test")
    bare = _texts(clean(iff.body))
    if bare == ["return T(literal)"]:
        wrapped = "false"
    elif bare in (["return factory([T(literal)])"], ["return factory((T(literal),))"]):
        wrapped = "true"
    else:
        raise Unrecognised(f"_parse_literal: bare-literal arm {bare}")
    if _texts(clean(iff.orelse)) != ["container = literal", "values = factory((T(v) for v in container))", "return values"]:
        raise Unrecognised("_parse_literal: container arm")
    # _fallback_parse
    fb = clean(inner["_fallback_parse"].body)
    ft = _texts(fb)
    if len(fb) != 8:
        raise Unrecognised(f"_fallback_parse: {len(fb)} statements, expected 8")
    if ft[0] != "v = ' '.join(v.split())" or ft[1] != "if v.startswith('[') and v.endswith(']'):\n    v = v[1:-1]":
        raise Unrecognised("_fallback_parse: normalisation")
    if not (isinstance(fb[2], ast.Assign) and unparse(fb[2].targets[0]) == "separator"):
        raise Unrecognised("_fallback_parse: default separator")
    dsep = const(fb[2].value, str)
    loop = fb[3]
    if not (isinstance(loop, ast.For) and unparse(loop.target) == "sep" and isinstance(loop.iter, (ast.List, ast.Tuple))
            and _texts(clean(loop.body)) == ["if sep in v:\n    separator = sep"]):
        raise Unrecognised("_fallback_parse: separator loop")
    seps = [const(e, str) for e in loop.iter.elts]
    for s in seps + [dsep]:
        if len(s) != 1 or not (32 <= ord(s) < 127):
            raise Unrecognised(f"_fallback_parse: separator {s!r} is not one printable character")
    if ft[4:] != ["str_values = [v.strip() for v in v.split(separator)]", "T_values = [T(v_str) for v_str in str_values]",
                  "values = factory((v for v in T_values))", "return values"]:
        raise Unrecognised("_fallback_parse: split / convert")
    # get_nesting_level
    gnl = find_def(utils, "get_nesting_level")
    want = ("if not isinstance(possibly_nested_list, (list, tuple)):\n    return 0\n"
            "elif len(possibly_nested_list) == 0:\n    return 1\n"
            "else:\n    return 1 + max((get_nesting_level(item) for item in possibly_nested_list))")
    if _texts(clean(gnl.body)) != [want]:
        raise Unrecognised("get_nesting_level changed")
    # get_argparse_type_for_container ends in `return T` for plain item types
    g = find_def(utils, "get_argparse_type_for_container")
    gt = _texts(clean(g.body))
    if gt[0] != "T = get_item_type(container_type)" or gt[-1] != "return T":
        raise Unrecognised("get_argparse_type_for_container")
    return wrapped, seps, dsep


def _merge(conflicts, dcw):
    fn = find_def(conflicts, "_fix_conflict_merge", "ConflictResolver")
    t = _texts(clean(fn.body))
    src = "\n".join(t)
    if "fields = sorted(conflict.wrappers, key=lambda w: w.nesting_level)" not in t:
        raise Unrecognised("_fix_conflict_merge: sort")
    if "first_wrapper: FieldWrapper = fields[0]" in t:
        first_sorted = "true"
    elif "first_wrapper: FieldWrapper = conflict.wrappers[0]" in t:
        first_sorted = "false"
    else:
        raise Unrecognised("_fix_conflict_merge: first wrapper")
    loops = [s for s in clean(fn.body) if isinstance(s, ast.For)]
    loops = [l for l in loops if unparse(l.target) == "wrapper"]
    if len(loops) != 1:
        raise Unrecognised("_fix_conflict_merge: merge loop")
    it = unparse(loops[0].iter)
    if it == "conflict.wrappers[1:]":
        rest_unsorted = "true"
    elif it == "fields[1:]":
        rest_unsorted = "false"
    else:
        raise Unrecognised(f"_fix_conflict_merge: merge loop over {it}")
    if _texts(clean(loops[0].body)) != ["containing_dataclass = wrapper.parent", "wrappers = self._remove(containing_dataclass, wrappers)",
                                        "first_containing_dataclass.merge(containing_dataclass)"]:
        raise Unrecognised("_fix_conflict_merge: merge loop body")
    for need in ("first_containing_dataclass: DataclassWrapper = first_wrapper.parent",
                 "wrappers = self._remove(first_containing_dataclass, wrappers)",
                 "wrappers = self._add(first_containing_dataclass, wrappers)"):
        if need not in src:
            raise Unrecognised(f"_fix_conflict_merge: lacks `{need}`")
    rm = find_def(conflicts, "_remove", "ConflictResolver")
    if "wrappers.remove(wrapper)" not in _texts(clean(rm.body)):
        raise Unrecognised("_remove: list.remove")
    mg = find_def(dcw, "merge", "DataclassWrapper")
    mt = _texts(clean(mg.body))
    if "for dest in other.destinations:\n    if dest not in self.destinations:\n        self.destinations.append(dest)" in mt:
        dedupes = "true"
    elif "self.destinations.extend(other.destinations)" in mt:
        dedupes = "false"
    else:
        raise Unrecognised("DataclassWrapper.merge: destinations")
    for need in ("self.defaults.extend(other.defaults)", "for field_wrapper in self.fields:\n    field_wrapper.set_default(None)",
                 "for child, other_child in zip(self._children, other._children):\n    child.merge(other_child)"):
        if need not in mt:
            raise Unrecognised(f"DataclassWrapper.merge: lacks `{need}`")
    return first_sorted, rest_unsorted, dedupes


def _getter(tree, cls, name):
    """The @property getter `name` of class `cls`."""
    c = [n for n in tree.body if isinstance(n, ast.ClassDef) and n.name == cls]
    if len(c) != 1:
        raise Unrecognised(f"class {cls}")
    f = [n for n in c[0].body if isinstance(n, ast.FunctionDef) and n.name == name
         and [unparse(d) for d in n.decorator_list] == ["property"]]
    if len(f) != 1:
        raise Unrecognised(f"{cls}.{name}: property getter not found exactly once")
    return f[0]


def _postprocess(fn):
    if [a.arg for a in fn.args.args] != ["self", "raw_parsed_value"]:
        raise Unrecognised("postprocess signature")
    body = clean(fn.body)
    if len(body) != 2 or not isinstance(body[0], ast.If) or unparse(body[1]) != "return raw_parsed_value":
        raise Unrecognised("postprocess: expected one if/elif chain followed by `return raw_parsed_value`")
    arms, els = if_chain(body[0])
    if els:
        raise Unrecognised("postprocess: the chain has an else arm")
    tests = {"self.is_enum": "PtIsEnum", "self.is_choice": "PtIsChoice", "self.is_tuple": "PtIsTuple", "self.is_bool": "PtIsBool",
             "self.is_list": "PtIsList", "self.is_subparser": "PtIsSubparser", "utils.is_optional(self.type)": "PtIsOptional",
             "self.type not in utils.builtin_types": "PtNotBuiltin"}
    acts = {
        ("if isinstance(raw_parsed_value, str):\n    raw_parsed_value = self.type[raw_parsed_value]", "return raw_parsed_value"): "PaEnumLookupIfStr",
        ("if raw_parsed_value is not None and (not isinstance(raw_parsed_value, tuple)):\n    return tuple(raw_parsed_value)",): "PaTupleIfNotTuple",
        ("if not isinstance(raw_parsed_value, tuple):\n    return tuple(raw_parsed_value)",): "PaTupleIfNotTuple",
        ("return raw_parsed_value",): "PaRaw",
        ("if isinstance(raw_parsed_value, tuple):\n    return list(raw_parsed_value)\nelse:\n    return raw_parsed_value",): "PaListIfTuple",
        ("item_type = utils.get_args(self.type)[0]",
         "if utils.is_tuple(item_type) and isinstance(raw_parsed_value, list):\n    return tuple(raw_parsed_value)"): "PaOptionalTuple",
    }
    rows = []
    for test, b in arms:
        t = tests.get(unparse(test))
        if t is None:
            raise Unrecognised(f"postprocess: test {unparse(test)}")
        key = tuple(_texts(b))
        if t == "PtIsChoice":
            if not key or key[0] != "choice_dict = self.choice_dict" or key[-1] != "return raw_parsed_value":
                raise Unrecognised("postprocess: choice arm")
            a = "PaChoiceDict"
        elif t == "PtNotBuiltin":
            if len(b) != 1 or not isinstance(b[0], ast.Try) or _texts(clean(b[0].body)) != ["return self.type(raw_parsed_value)"]:
                raise Unrecognised("postprocess: constructor arm")
            a = "PaTypeCall"
        else:
            a = acts.get(key)
            if a is None:
                raise Unrecognised(f"postprocess: body of the arm {unparse(test)}: {key}")
        rows.append(f"({t}, {a})")
    return rows


def _default_sources(fn):
    body = clean(fn.body)
    chains = [s for s in body if isinstance(s, ast.If) and unparse(s.test) == "self._default is not None"]
    if len(chains) != 1:
        raise Unrecognised("FieldWrapper.default: source chain")
    arms, els = if_chain(chains[0])
    if _texts(els) != ["default = None"]:
        raise Unrecognised("FieldWrapper.default: else arm of the source chain")
    parent_test = "any((parent_default not in (None, argparse.SUPPRESS) for parent_default in self.parent.defaults))"
    out = []
    for test, b in arms:
        t, tt = unparse(test), [x for x in _texts(b) if x != "single_value = False"]
        if t == "self._default is not None" and tt == ["default = self._default"]:
            out.append("SrcManual")
        elif t == "self.is_subgroup" and tt == ["default = self.subgroup_default"]:
            out.append("SrcSubgroup")
        elif t == parent_test:
            want = ("defaults = [_get_value(parent_default, self.field.name) for parent_default in self.parent.defaults "
                    "if parent_default not in (None, argparse.SUPPRESS)]")
            if want not in tt or not any(x.startswith("if len(self.parent.defaults) == 1:\n    default = defaults[0]\nelse:\n    default = defaults")
                                          for x in tt):
                raise Unrecognised("FieldWrapper.default: parent-defaults arm")
            getv = [x for x in b if isinstance(x, ast.FunctionDef) and x.name == "_get_value"]
            if len(getv) != 1 or _texts(clean(getv[0].body)) != [
                    "if isinstance(dataclass_default, dict):\n    return dataclass_default.get(name)", "return getattr(dataclass_default, name)"]:
                raise Unrecognised("FieldWrapper.default: _get_value")
            out.append("SrcParentDefaults")
        elif t == "self.field.default is not dataclasses.MISSING" and tt == ["default = self.field.default"]:
            out.append("SrcFieldDefault")
        elif t == "self.field.default_factory is not dataclasses.MISSING":
            ok1 = ["if self._default_factory_result is dataclasses.MISSING:\n    self._default_factory_result = self.field.default_factory()",
                   "default = self._default_factory_result"]
            ok2 = ["if self._default is None:\n    self._default = self.field.default_factory()", "default = self._default"]
            if tt not in (ok1, ok2):
                raise Unrecognised("FieldWrapper.default: default_factory arm")
            out.append("SrcFactory")
        elif t == "self.action == 'store_true'" and tt == ["default = False"]:
            out.append("SrcStoreTrue")
        elif t == "self.action == 'store_false'" and tt == ["default = True"]:
            out.append("SrcStoreFalse")
        else:
            raise Unrecognised(f"FieldWrapper.default: source arm {t}: {tt}")
    return out


def _defaults_property(dcw):
    fn = _getter(dcw, "DataclassWrapper", "defaults")
    body = clean(fn.body)
    t = _texts(body)
    if len(body) != 5 or t[0] != "if self._defaults:\n    return self._defaults" or t[2] != "assert self.parent is not None" \
            or t[4] != "return self._defaults":
        raise Unrecognised("DataclassWrapper.defaults: skeleton")
    if t[1] == "if self._field is None:\n    return []":
        fresh = "true"
    elif t[1] == "if self._field is None:\n    return self._defaults":
        fresh = "false"
    else:
        raise Unrecognised("DataclassWrapper.defaults: top-level arm")
    blk = body[3]
    if not isinstance(blk, ast.If) or unparse(blk.test) != "self.parent.defaults":
        raise Unrecognised("DataclassWrapper.defaults: member arm")
    if _texts(clean(blk.body)) != ["self._defaults = []",
                                   "for default in self.parent.defaults:\n    if default not in (None, argparse.SUPPRESS):\n"
                                   "        default = getattr(default, self.name)\n    self._defaults.append(default)"]:
        raise Unrecognised("DataclassWrapper.defaults: defaults taken from the parent's")
    if _texts(clean(blk.orelse)) != ["default_field_value = utils.default_value(self._field)",
                                     "if default_field_value is MISSING:\n    self._defaults = []\nelse:\n"
                                     "    self._defaults = [default_field_value]"]:
        raise Unrecognised("DataclassWrapper.defaults: seeding from the member field")
    init = find_def(dcw, "__init__", "DataclassWrapper")
    if "self._defaults: list[DataclassT] = [default] if default else []" not in _texts(clean(init.body)):
        raise Unrecognised("DataclassWrapper.__init__: _defaults")
    return fresh, "true"


def _required(fn):
    body = clean(fn.body)
    if not body or not isinstance(body[-1], ast.Return):
        raise Unrecognised("FieldWrapper.required: last statement")
    els = const(body[-1].value, bool)
    tests = {"self._required is not None": "RqExplicit", "self.is_subgroup": "RqSubgroup",
             "self.action_str.startswith('store_')": "RqStoreAction", "self.is_optional": "RqOptional",
             "self.parent.required": "RqParentRequired", "self.nargs in {'?', '*'}": "RqNargsOptionalish",
             "self.nargs == '+'": "RqNargsPlus",
             "self.default is None and argparse.SUPPRESS not in self.parent.defaults": "RqDefaultNone",
             "self.is_reused": "RqReused"}
    rets = {"return True": "RrConst true", "return False": "RrConst false", "return self._required": "RrStored",
            "return self.subgroup_default in (None, dataclasses.MISSING)": "RrSubgroupDefaultMissing",
            "return any((v == dataclasses.MISSING for v in self.default))": "RrAnyMissing"}
    rows = []
    for s in body[:-1]:
        if not isinstance(s, ast.If) or s.orelse:
            raise Unrecognised(f"FieldWrapper.required: statement {unparse(s)[:60]}")
        t = tests.get(unparse(s.test))
        b = _texts(clean(s.body))
        r = rets.get(b[0]) if len(b) == 1 else None
        if t is None or r is None:
            raise Unrecognised(f"FieldWrapper.required: `if {unparse(s.test)}: {b}`")
        rows.append(f"({t}, {r})")
    return rows, "true" if els else "false"


def _conflict_order(conflicts, dcw, repo):
    g = find_def(conflicts, "get_conflict", "ConflictResolver")
    want = ["field_wrappers: list[FieldWrapper] = []",
            "for w in wrappers:\n    if isinstance(w, DataclassWrapper):\n        field_wrappers.extend(w.fields)\n    else:\n"
            "        field_wrappers.append(w)",
            "assert len(field_wrappers) == len(set(field_wrappers)), 'duplicates?'",
            "conflicts: dict[str, list[FieldWrapper]] = defaultdict(list)",
            "for field_wrapper in field_wrappers:\n    for option_string in field_wrapper.option_strings:\n"
            "        conflicts[option_string].append(field_wrapper)",
            "for option_string, field_wrappers in conflicts.items():\n    if len(field_wrappers) > 1:\n"
            "        return Conflict(option_string, field_wrappers)",
            "return None"]
    if _texts(clean(g.body)) != want:
        raise Unrecognised("get_conflict changed")
    parsing = parse(repo, "simple_parsing/parsing.py")
    fl = find_def(parsing, "_flatten_wrappers")
    if _texts(clean(fl.body))[-1] != "return sum(([w] + list(w.descendants) for w in roots_only), [])":
        raise Unrecognised("_flatten_wrappers changed")
    desc = _getter(dcw, "DataclassWrapper", "descendants")
    if _texts(clean(desc.body)) != ["for child in self._children:\n    yield child\n    yield from child.descendants"]:
        raise Unrecognised("DataclassWrapper.descendants changed")
    rr = find_def(conflicts, "resolve_and_flatten", "ConflictResolver")
    rt = "\n".join(_texts(clean(rr.body)))
    for need in ("wrappers_flat = _flatten_wrappers(wrappers)", "conflict = self.get_conflict(wrappers_flat)",
                 "wrappers_flat = self._fix_conflict_merge(conflict, wrappers_flat)"):
        if need not in rt:
            raise Unrecognised(f"resolve_and_flatten: lacks `{need}`")
    dest = _getter(dcw, "DataclassWrapper", "destinations")
    if _texts(clean(dest.body)) != ["if not self._destinations:\n    if self.parent:\n"
                                    "        self._destinations = [f'{d}.{self.name}' for d in self.parent.destinations]\n"
                                    "    else:\n        self._destinations = [self.name]", "return self._destinations"]:
        raise Unrecognised("DataclassWrapper.destinations changed")
    wr = parse(repo, "simple_parsing/wrappers/wrapper.py")
    nl = _getter(wr, "Wrapper", "nesting_level")
    if _texts(clean(nl.body))[0] != "return len(self.lineage())":
        raise Unrecognised("Wrapper.nesting_level changed")
    lin = find_def(wr, "lineage", "Wrapper")
    if _texts(clean(lin.body)) != ["lineage: list[Wrapper] = []", "parent = self.parent",
                                   "while parent is not None:\n    lineage.append(parent)\n    parent = parent.parent", "return lineage"]:
        raise Unrecognised("Wrapper.lineage changed")
    return "true", "true"


def _primitive_parsers(repo, get_arg_options):
    fp = parse(repo, "simple_parsing/wrappers/field_parsing.py")
    tab = [n for n in fp.body if isinstance(n, ast.AnnAssign) and unparse(n.target) == "_parsing_fns"]
    if len(tab) != 1 or not isinstance(tab[0].value, ast.DictComp):
        raise Unrecognised("field_parsing._parsing_fns")
    dc = tab[0].value
    if unparse(dc.key) != "t" or unparse(dc.value) != "t" or len(dc.generators) != 1 or unparse(dc.generators[0].target) != "t" \
            or dc.generators[0].ifs or not isinstance(dc.generators[0].iter, (ast.List, ast.Tuple)):
        raise Unrecognised("field_parsing._parsing_fns comprehension")
    names = []
    for e in dc.generators[0].iter.elts:
        if not isinstance(e, ast.Name):
            raise Unrecognised("field_parsing._parsing_fns entry")
        names.append(e.id)
    later = [unparse(n) for n in fp.body if isinstance(n, ast.Assign) and unparse(n.targets[0]).startswith("_parsing_fns[")]
    if later != ["_parsing_fns[bool] = str2bool"]:
        raise Unrecognised(f"field_parsing: later assignments into _parsing_fns: {later}")
    g = find_def(fp, "get_parsing_fn")
    first = clean(g.body)[0]
    if not isinstance(first, ast.If) or unparse(first.test) != "t in _parsing_fns" or _texts(clean(first.body)) != ["return _parsing_fns[t]"]:
        raise Unrecognised("get_parsing_fn: table lookup is no longer first")
    chain = [s for s in clean(get_arg_options.body) if isinstance(s, ast.If) and unparse(s.test) == "self.is_choice"]
    _, els = if_chain(chain[0])
    if "_arg_options['type'] = self.custom_arg_options.get('type', get_parsing_fn(self.type))" not in _texts(els):
        raise Unrecognised("get_arg_options: plain arm no longer uses get_parsing_fn(self.type)")
    return names


def _cchar(s):
    return '"' + ('""' if s == '"' else s) + '"%char'


def emit(repo: str) -> str:
    fw = parse(repo, "simple_parsing/wrappers/field_wrapper.py")
    utils = parse(repo, "simple_parsing/utils.py")
    conflicts = parse(repo, "simple_parsing/conflicts.py")
    dcw = parse(repo, "simple_parsing/wrappers/dataclass_wrapper.py")
    cls = [n for n in fw.body if isinstance(n, ast.ClassDef) and n.name == "FieldWrapper"]
    if len(cls) != 1:
        raise Unrecognised("FieldWrapper")
    guards, conds, chain, els = _duplicate(find_def(fw, "duplicate_if_needed", "FieldWrapper"))
    dflt = _getter(fw, "FieldWrapper", "default")
    pk = _packaging(dflt)
    gao = find_def(fw, "get_arg_options", "FieldWrapper")
    req, opt = _nargs(gao)
    _call(find_def(fw, "__call__", "FieldWrapper"))
    _destinations(cls[0].body)
    wrapped, seps, dsep = _parse_container(utils)
    first_sorted, rest_unsorted, dedupes = _merge(conflicts, dcw)
    post = _postprocess(find_def(fw, "postprocess", "FieldWrapper"))
    sources = _default_sources(dflt)
    top_fresh, nested_seeded = _defaults_property(dcw)
    rq, rq_else = _required(_getter(fw, "FieldWrapper", "required"))
    disc, nested_dests = _conflict_order(conflicts, dcw, repo)
    prims = _primitive_parsers(repo, gao)
    # section variables of Model/Merge.v in declaration order, and which of them each definition depends on
    order = ["str2bool_gen", "DUP_CHAIN", "DUP_ELSE", "SC_GUARDS", "SC_CONDS", "PK_CHAIN", "NARGS_REQUIRED", "NARGS_OPTIONAL",
             "BARE_LITERAL_WRAPPED", "FALLBACK_SEPS", "FALLBACK_DEFAULT_SEP", "MERGE_FIRST_SORTED", "MERGE_REST_UNSORTED",
             "MERGE_DEDUPES", "POST_CHAIN", "DEFAULT_SOURCES", "DEFAULTS_TOP_FRESH", "DEFAULTS_NESTED_SEEDED", "REQ_CHAIN", "REQ_ELSE",
             "CONFLICT_DISCOVERY_ORDER", "NESTED_DESTS_FROM_PARENT", "PRIMITIVE_PARSERS"]
    conv = {"str2bool_gen", "BARE_LITERAL_WRAPPED", "FALLBACK_SEPS", "FALLBACK_DEFAULT_SEP", "PRIMITIVE_PARSERS"}
    dup = {"DUP_CHAIN", "DUP_ELSE", "SC_GUARDS", "SC_CONDS"}
    coll = conv | {"NARGS_REQUIRED", "NARGS_OPTIONAL", "REQ_CHAIN", "REQ_ELSE"}
    dist = coll | dup | {"POST_CHAIN"}
    mrg = {"MERGE_FIRST_SORTED", "MERGE_REST_UNSORTED", "MERGE_DEDUPES"}
    dobj = {"DEFAULT_SOURCES", "DEFAULTS_TOP_FRESH", "DEFAULTS_NESTED_SEEDED"}

    def inst(name, deps):
        return f"Definition {name}_gen := {name} {' '.join(x for x in order if x in deps)}.\n"

    return (
        "From SPV Require Import Base.Str Model.Merge Gen.FactsBool.\nOpen Scope string_scope.\n"
        f"Definition DUP_CHAIN : list (len_test * dup_act) := [{'; '.join(chain)}].\n"
        f"Definition DUP_ELSE : dup_act := {els}.\n"
        f"Definition SC_GUARDS : list sc_guard := [{'; '.join(guards)}].\n"
        f"Definition SC_CONDS : list sc_atom := [{'; '.join(conds)}].\n"
        f"Definition PK_CHAIN : list pk_test := [{'; '.join(pk)}].\n"
        f"Definition NARGS_REQUIRED : nargs := {req}.\n"
        f"Definition NARGS_OPTIONAL : nargs := {opt}.\n"
        f"Definition BARE_LITERAL_WRAPPED : bool := {wrapped}.\n"
        f"Definition FALLBACK_SEPS : list ascii := [{'; '.join(_cchar(s) for s in seps)}].\n"
        f"Definition FALLBACK_DEFAULT_SEP : ascii := {_cchar(dsep)}.\n"
        f"Definition MERGE_FIRST_SORTED : bool := {first_sorted}.\n"
        f"Definition MERGE_REST_UNSORTED : bool := {rest_unsorted}.\n"
        f"Definition MERGE_DEDUPES : bool := {dedupes}.\n"
        f"Definition POST_CHAIN : list (post_test * post_act) := [{'; '.join(post)}].\n"
        f"Definition DEFAULT_SOURCES : list dsource := [{'; '.join(sources)}].\n"
        f"Definition DEFAULTS_TOP_FRESH : bool := {top_fresh}.\n"
        f"Definition DEFAULTS_NESTED_SEEDED : bool := {nested_seeded}.\n"
        f"Definition REQ_CHAIN : list (req_test * req_ret) := [{'; '.join(rq)}].\n"
        f"Definition REQ_ELSE : bool := {rq_else}.\n"
        f"Definition CONFLICT_DISCOVERY_ORDER : bool := {disc}.\n"
        f"Definition NESTED_DESTS_FROM_PARENT : bool := {nested_dests}.\n"
        f"Definition PRIMITIVE_PARSERS : list string := [{'; '.join(chr(34) + n + chr(34) for n in prims)}].\n"
        "(* the model instantiated with the regenerated facts *)\n"
        + inst("convert", conv) + inst("package_default", {"PK_CHAIN"}) + inst("duplicate", dup)
        + inst("postprocess", {"POST_CHAIN"}) + inst("collect", coll) + inst("distribute", dist)
        + inst("merge_dests", {"MERGE_DEDUPES"}) + inst("fix_conflict_merge", mrg) + inst("default_object", dobj)
        + inst("run", set(order))
    )
