"""DataclassWrapper (simple_parsing/wrappers/dataclass_wrapper.py): how defaults travel from a parent wrapper to its children,
dumped as MiniPy blocks (coq/Model/MiniPy.v).  Output: coq/Gen/FactsWrapperSrc.v.

  defaults_src        the property DataclassWrapper.defaults, whole body
  field_default_src   inside the field loop of DataclassWrapper.__init__: from `field_default = dataclasses.MISSING` to the end of
                      the if/elif chain that picks the default handed down for ONE field (partial keywords / dict / instance)
  split_src           the rest of the loop body: the container-of-dataclass refusal, then the four-way split
                      subparser-or-choice field / dataclass member / Optional-or-Union dataclass member / plain field, with the
                      wrapper objects built and appended to self.fields / self._children

How the rest enters the bridge theorems (Proofs/MiniPyWrapper.v):
  self._defaults, self.fields, self._children    variables of the block (flat accumulators: assigned / appended, never aliased)
  self._field, self.parent, self.name, self.parent.defaults, self.prefix
                                                 variables holding already computed values.  `parent` / `name` are the properties
                                                 `return self._parent` / `return self._name` (checked here); `self.parent.defaults`
                                                 is this same property of the parent: the bridge is stated for an arbitrary value of
                                                 it (the recursion is the model's, Defaults.run_fld)
  utils.default_value, utils.is_tuple_or_list_of_dataclasses, utils.is_subparser_field, utils.is_choice,
  utils.contains_dataclass_type_arg, utils.get_dataclass_type_arg, dataclasses.is_dataclass, is_dataclass_instance
                                                 uninterpreted pure functions given by tables (ECallTable)
  self.field_wrapper_class(field, parent=.., prefix=..), DataclassWrapper(.., parent=self, _field=field, default=..)
                                                 uninterpreted constructors: the new object is a record that keeps exactly the
                                                 arguments written at the call (positional ones under their parameter name, read off
                                                 DataclassWrapper.__init__'s own signature; FieldWrapper's first parameter is `field`)
  field_wrapper.set_default(v)                   `field_wrapper._default = v` (FieldWrapper.set_default's body is checked here)
  child_wrapper.required / .optional = ..        attribute assignments on the new record
  self                                           an opaque token (the `parent=self` back reference); isinstance(x, functools.partial)
                                                 / isinstance(x, dict) are class tests on records / dicts
  logger.debug(..)                               skipped.  NOTE: the skipped line of the plain-field branch evaluates
                                                 field_wrapper.dest and field_wrapper.default and the line after the loop evaluates
                                                 self.defaults (caching side effects: the model's `init_caches` fact,
                                                 translate/Defaults.py)
Not dumped: the head of the loop body (`if not field.init or field.metadata.get("cmd", True) is False: continue`, the resolution of
string annotations) and the attribute initialisation before the loop except `self._defaults = [default] if default else []`, which
is pinned as text (INIT_DEFAULTS)."""
from __future__ import annotations

import ast

from .minipy import Ctx, checked_block, method_block
from .pyast import Unrecognised, clean, cstr, find_def, parse, unparse

CONSTS = {"argparse.SUPPRESS": "argparse.SUPPRESS", "MISSING": "dataclasses.MISSING", "dataclasses.MISSING": "dataclasses.MISSING"}
INIT_DEFAULTS = "self._defaults: list[DataclassT] = [default] if default else []"
FIRST = "field_default = dataclasses.MISSING"
INIT_PARAMS = ["self", "dataclass", "name", "default", "prefix", "parent", "_field", "field_wrapper_class", "dataclass_fn"]
TABLES = ["utils.default_value", "utils.is_tuple_or_list_of_dataclasses", "utils.is_subparser_field", "utils.is_choice",
          "utils.contains_dataclass_type_arg", "utils.get_dataclass_type_arg", "dataclasses.is_dataclass", "is_dataclass_instance"]


def _prop(cls: ast.ClassDef, name: str) -> ast.FunctionDef:
    got = [n for n in cls.body if isinstance(n, ast.FunctionDef) and n.name == name and [unparse(d) for d in n.decorator_list] == ["property"]]
    if len(got) != 1:
        raise Unrecognised(f"DataclassWrapper.{name}: expected exactly one @property")
    return got[0]


def _frozen_after_append(body, names):
    """A record bound to one of `names` is mutated (setter / attribute assignment) only BEFORE it is appended to a list of self, and the
    append is the last statement of its block that mentions the name (MiniPy values are copies)."""
    for blk in [body] + [x for n in ast.walk(ast.Module(body=body, type_ignores=[])) for x in (getattr(n, "body", None), getattr(n, "orelse", None))
                         if isinstance(x, list) and x and isinstance(x[0], ast.stmt)]:
        for i, s in enumerate(blk):
            if isinstance(s, ast.Expr) and isinstance(s.value, ast.Call) and isinstance(s.value.func, ast.Attribute) and s.value.func.attr == "append" \
                    and len(s.value.args) == 1 and isinstance(s.value.args[0], ast.Name) and s.value.args[0].id in names:
                nm = s.value.args[0].id
                for later in blk[i + 1:]:
                    if any(isinstance(m, ast.Name) and m.id == nm for m in ast.walk(later)):
                        raise Unrecognised(f"{nm} is used after it was appended (the appended object would be shared)")


def emit(repo: str) -> str:
    mod = parse(repo, "simple_parsing/wrappers/dataclass_wrapper.py")
    fwmod = parse(repo, "simple_parsing/wrappers/field_wrapper.py")
    cls = [n for n in mod.body if isinstance(n, ast.ClassDef) and n.name == "DataclassWrapper"]
    if len(cls) != 1:
        raise Unrecognised("class DataclassWrapper")
    cls = cls[0]
    for prop, attr in (("parent", "_parent"), ("name", "_name")):
        if [unparse(s) for s in clean(_prop(cls, prop).body)] != [f"return self.{attr}"]:
            raise Unrecognised(f"DataclassWrapper.{prop} is no longer `return self.{attr}`")
    sd = find_def(fwmod, "set_default", cls="FieldWrapper")
    if [a.arg for a in sd.args.args] != ["self", "value"] or [unparse(s) for s in clean(sd.body)] != ["self._default = value"]:
        raise Unrecognised("FieldWrapper.set_default is no longer `self._default = value`")
    fw_init = find_def(fwmod, "__init__", cls="FieldWrapper")
    if [a.arg for a in fw_init.args.args][:4] != ["self", "field", "parent", "prefix"]:
        raise Unrecognised("FieldWrapper.__init__: expected (self, field, parent, prefix, ..)")

    # ---- the property
    dfn = _prop(cls, "defaults")
    if [a.arg for a in dfn.args.args] != ["self"]:
        raise Unrecognised("DataclassWrapper.defaults: parameters")
    dctx = Ctx(objects=True, consts=CONSTS, tables=TABLES, attr_vars=["self._field", "self.parent", "self.parent.defaults", "self.name"],
               attr_targets=["self._defaults"])
    dblk, dlocals = method_block(dfn, dctx)

    # ---- the field loop of __init__
    init = find_def(mod, "__init__", cls="DataclassWrapper")
    a = init.args
    if [x.arg for x in a.posonlyargs + a.args] != INIT_PARAMS or a.vararg or a.kwarg or a.kwonlyargs:
        raise Unrecognised(f"DataclassWrapper.__init__: expected the parameters {INIT_PARAMS}")
    body = clean(init.body)
    if [unparse(s) for s in body].count(INIT_DEFAULTS) != 1:
        raise Unrecognised("DataclassWrapper.__init__: `" + INIT_DEFAULTS + "` not found")
    for n in ast.walk(init):
        if isinstance(n, (ast.Attribute,)) and isinstance(n.ctx, ast.Store) and unparse(n) == "self._defaults" and unparse(n) and False:
            pass
    stores = [s for s in ast.walk(init) if isinstance(s, (ast.Assign, ast.AnnAssign, ast.AugAssign))
              and any(unparse(t) == "self._defaults" for t in (s.targets if isinstance(s, ast.Assign) else [s.target]))]
    if len(stores) != 1:
        raise Unrecognised("DataclassWrapper.__init__ assigns self._defaults more than once")
    loops = [s for s in body if isinstance(s, ast.For)]
    if len(loops) != 1 or unparse(loops[0].target) != "field" or unparse(loops[0].iter) != "dataclass_fields" or loops[0].orelse:
        raise Unrecognised("DataclassWrapper.__init__: expected the single loop `for field in dataclass_fields`")
    lbody = clean(loops[0].body)
    texts = [unparse(s) for s in lbody]
    if texts.count(FIRST) != 1:
        raise Unrecognised("DataclassWrapper.__init__: `" + FIRST + "` not found in the field loop")
    i = texts.index(FIRST)
    # `default`, `dataclass_fn`, `prefix` are parameters: not re-bound anywhere in __init__ (the loop reads the caller's values)
    for n in ast.walk(init):
        if isinstance(n, ast.Name) and isinstance(n.ctx, ast.Store) and n.id in ("default", "dataclass_fn", "prefix", "self"):
            raise Unrecognised(f"DataclassWrapper.__init__ re-binds its parameter {n.id}")
    pick, split = lbody[i:i + 2], lbody[i + 2:]
    if len(pick) != 2 or not isinstance(pick[1], ast.If) or not split:
        raise Unrecognised("DataclassWrapper.__init__: expected `field_default = MISSING` followed by the if/elif chain")
    pctx = Ctx(objects=True, consts=CONSTS, tables=TABLES, record_classes=["functools.partial"])
    pblk = checked_block(pick, pctx)
    dw_params = INIT_PARAMS[1:]
    sctx = Ctx(objects=True, consts=CONSTS, tables=TABLES, attr_vars=["self.prefix"], attr_targets=["self.fields", "self._children"],
               kw_ctors={"self.field_wrapper_class": ("FieldWrapper", ["field", "parent", "prefix"]), "DataclassWrapper": ("DataclassWrapper", dw_params)},
               setters={"set_default": "_default"})
    _frozen_after_append(split, {"field_wrapper", "child_wrapper"})
    sblk = checked_block(split, sctx)
    out = ["(* GENERATED from /repo by harness/translate/WrapperSrc.py on every check - do not edit *)",
           "From SPV Require Import Base.Str Model.MiniPy.", "Open Scope string_scope.",
           f"Definition defaults_src : list stmt :=\n  {dblk}.",
           "Definition defaults_locals : list string := [" + "; ".join(cstr(x) for x in dlocals) + "].",
           "Definition field_default_src : list stmt :=\n  [" + ";\n   ".join(pblk) + "].",
           "Definition split_src : list stmt :=\n  [" + ";\n   ".join(sblk) + "]."]
    return "\n".join(out) + "\n"
