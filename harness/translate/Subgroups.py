"""Facts for subgroup fields (C07), read fail-closed from the working tree:

* parsing.py `ArgumentParser._resolve_subgroups`: `allow_abbrev` of the throw-away parser; the loop structure
  (`itertools.count()` rounds: add the unresolved subgroup arguments (with their assertions), parse_known_args, resolve each,
  re-run the conflict resolver, recompute the unresolved set, stop when it is empty); how a chosen entry is classified
  (dataclass instance -> `functools.partial(dataclasses.replace, default)`, otherwise the callable and
  `subgroup_dataclass_types[key]`) and handed to `_add_arguments`.
* parsing.py `ArgumentParser.__init__`: does not touch `allow_abbrev` (argparse's default stays).
* parsing.py `_remove_subgroups_from_namespace`: `namespace.subgroups[dest]` is read back from the namespace, attribute removed.
* dataclass_wrapper.py `DataclassWrapper.__init__`: keywords of a `functools.partial` / attributes of a default instance become
  the field defaults, also for choice (subgroup) fields.
* field_wrapper.py `FieldWrapper.default` / `required` for subgroup fields.
* helpers/subgroups.py `subgroups()`: validation of `default` / `default_factory`, what is stored under which metadata key.

Output: coq/Gen/FactsSubgroups.v (imports Model.Subgroups and instantiates it)."""
from __future__ import annotations

import ast

from .pyast import Unrecognised, clean, const, cstrs, find_class, find_def, if_chain, kw_defaults, parse, unparse


def cb(b):
    return "true" if b else "false"


def _texts(body):
    return [unparse(s) for s in clean(body)]


def _expect(got, want, what):
    if got != want:
        raise Unrecognised(f"{what}: expected\n{want}\n got\n{got}")


# --------------------------------------------------------------------------------------------------
def _resolve_subgroups(tree):
    fn = find_def(tree, "_resolve_subgroups", cls="ArgumentParser")
    if [a.arg for a in fn.args.args] != ["self", "wrappers", "args", "namespace"]:
        raise Unrecognised("_resolve_subgroups signature")
    body = clean(fn.body)
    if len(body) != 6:
        raise Unrecognised(f"_resolve_subgroups: {len(body)} top-level statements instead of 6")
    _expect(unparse(body[0]), "unresolved_subgroups = _get_subgroup_fields(wrappers)", "_resolve_subgroups[0]")
    _expect(unparse(body[1]), "resolved_subgroups: dict[str, SubgroupKey] = {}", "_resolve_subgroups[1]")
    _expect(unparse(body[2]), "if not unresolved_subgroups:\n    return (wrappers, {})", "_resolve_subgroups[2] (nothing to resolve)")
    _expect(unparse(body[5]), "return (wrappers, resolved_subgroups)", "_resolve_subgroups[5]")

    # the throw-away parser
    mk = body[3]
    if not (isinstance(mk, ast.Assign) and unparse(mk.targets[0]) == "subgroup_choice_parser" and isinstance(mk.value, ast.Call)
            and unparse(mk.value.func) == "argparse.ArgumentParser" and not mk.value.args):
        raise Unrecognised("_resolve_subgroups: construction of subgroup_choice_parser")
    kws = {k.arg: k.value for k in mk.value.keywords}
    if set(kws) - {"add_help", "formatter_class", "allow_abbrev"} or None in kws:
        raise Unrecognised(f"subgroup_choice_parser: unexpected keywords {sorted(map(str, kws))}")
    if "add_help" not in kws or const(kws["add_help"], bool) is not False:
        raise Unrecognised("subgroup_choice_parser: add_help=False expected")
    sub_abbrev = const(kws["allow_abbrev"], bool) if "allow_abbrev" in kws else True

    # the rounds
    loop = body[4]
    if not (isinstance(loop, ast.For) and unparse(loop.iter) == "itertools.count()" and not loop.orelse):
        raise Unrecognised("_resolve_subgroups: `for ... in itertools.count()` loop")
    lb = clean(loop.body)
    texts = [unparse(s) for s in lb]
    if len(lb) not in (6, 7):
        raise Unrecognised(f"round body: {len(lb)} statements")
    add, parse_stmt, res = lb[0], lb[1], lb[2]
    _expect(texts[1], "parsed_args, unused_args = subgroup_choice_parser.parse_known_args(args=args, namespace=namespace)", "round: parse")
    _expect(texts[3], "wrappers = self._conflict_resolver.resolve(wrappers)", "round: conflict resolution after each round")
    _expect(texts[4], "all_subgroup_fields = _get_subgroup_fields(wrappers)", "round: recompute subgroup fields")
    _expect(texts[5], "unresolved_subgroups = {k: v for k, v in all_subgroup_fields.items() if k not in resolved_subgroups}",
            "round: recompute the unresolved set")
    if len(lb) == 7:
        stop = lb[6]
        if not (isinstance(stop, ast.If) and unparse(stop.test) == "not unresolved_subgroups"
                and [type(x) for x in clean(stop.body)] == [ast.Break] and clean(stop.orelse) == []):
            raise Unrecognised("round: `if not unresolved_subgroups: break`")
        loop_breaks = True
    else:
        loop_breaks = False

    # adding the round's arguments
    if not (isinstance(add, ast.For) and unparse(add.target) == "(dest, subgroup_field)" and unparse(add.iter) == "unresolved_subgroups.items()"):
        raise Unrecognised("round: loop adding the unresolved subgroup arguments")
    ab = _texts(add.body)
    want_add = [
        "flags = subgroup_field.option_strings",
        "argument_options = subgroup_field.arg_options",
        None,  # the assertions, examined below
        "if argparse.SUPPRESS in subgroup_field.parent.defaults:\n    assert argument_options['default'] is argparse.SUPPRESS\n"
        "    argument_options['default'] = argparse.SUPPRESS",
        "subgroup_choice_parser.add_argument(*flags, **argument_options)",
    ]
    if len(ab) == 5:
        for g, w in zip(ab, want_add):
            if w is not None:
                _expect(g, w, "round: adding arguments")
        a = ab[2]
        full = ("if subgroup_field.subgroup_default is dataclasses.MISSING:\n    assert argument_options['required']\nelse:\n"
                "    assert argument_options['default'] is subgroup_field.subgroup_default\n"
                "    assert not is_dataclass_instance(argument_options['default'])")
        _expect(a, full, "round: assertions on the argument options")
        asserts_default = True
    elif len(ab) == 4:
        for g, w in zip(ab, [w for w in want_add if w is not None]):
            _expect(g, w, "round: adding arguments")
        asserts_default = False
    else:
        raise Unrecognised("round: body of the loop adding the arguments")

    # resolving each
    if not (isinstance(res, ast.For) and unparse(res.target) == "(dest, subgroup_field)" and unparse(res.iter) == "list(unresolved_subgroups.items())"):
        raise Unrecognised("round: loop resolving the parsed subgroup keys")
    rb = clean(res.body)
    rt = [unparse(s) for s in rb]
    want_res = [
        "subgroup_dict = subgroup_field.subgroup_choices",
        "chosen_subgroup_key: SubgroupKey = getattr(parsed_args, dest)",
        "assert chosen_subgroup_key in subgroup_dict",
        "default_or_dataclass_fn = subgroup_dict[chosen_subgroup_key]",
        None,  # classification
        "assert default is None or is_dataclass_instance(default)",
        "assert callable(dataclass_fn)",
        "assert is_dataclass_type(dataclass_type)",
        "name = dest.split('.')[-1]",
        "parent_dataclass_wrapper = subgroup_field.parent",
        "new_wrapper = self._add_arguments(dataclass_type=dataclass_type, name=name, dataclass_fn=dataclass_fn, default=default, "
        "parent=parent_dataclass_wrapper)",
        "assert new_wrapper not in parent_dataclass_wrapper._children",
        "parent_dataclass_wrapper._children.append(new_wrapper)",
        "assert new_wrapper.parent is parent_dataclass_wrapper",
        "assert parent_dataclass_wrapper in _flatten_wrappers(wrappers)",
        "assert new_wrapper in _flatten_wrappers(wrappers)",
        "unresolved_subgroups.pop(dest)",
        "resolved_subgroups[dest] = chosen_subgroup_key",
    ]
    if len(rt) != len(want_res):
        raise Unrecognised(f"round: resolving loop has {len(rt)} statements instead of {len(want_res)}")
    for g, w in zip(rt, want_res):
        if w is not None:
            _expect(g, w, "round: resolving a subgroup")
    cl = rb[4]
    if not (isinstance(cl, ast.If) and unparse(cl.test) == "is_dataclass_instance(default_or_dataclass_fn)"):
        raise Unrecognised("round: classification of the chosen entry")
    inst_body, else_body = _texts(cl.body), _texts(cl.orelse)
    _expect(else_body, ["default = None", "dataclass_fn = default_or_dataclass_fn",
                        "dataclass_type = subgroup_field.field.metadata['subgroup_dataclass_types'][chosen_subgroup_key]"],
            "classification: callable entry")
    if inst_body == ["default = default_or_dataclass_fn", "dataclass_fn = functools.partial(dataclasses.replace, default)",
                     "dataclass_type = type(default)"]:
        inst_default = True
    else:
        raise Unrecognised(f"classification: frozen-instance entry: {inst_body}")
    return dict(sub_abbrev=sub_abbrev, loop_breaks=loop_breaks, asserts_default=asserts_default, inst_default=inst_default)


def _main_abbrev(tree):
    cls = find_class(tree, "ArgumentParser")
    init = [n for n in cls.body if isinstance(n, ast.FunctionDef) and n.name == "__init__"]
    if len(init) != 1:
        raise Unrecognised("ArgumentParser.__init__")
    src = unparse(init[0])
    if "allow_abbrev" in src:
        raise Unrecognised("ArgumentParser.__init__ mentions allow_abbrev")
    calls = [n for n in ast.walk(init[0]) if isinstance(n, ast.Call) and unparse(n.func) == "super().__init__"]
    forwards = len(calls) == 1 and any(k.arg is None and unparse(k.value) == "kwargs" for k in calls[0].keywords)
    if not forwards or init[0].args.kwarg is None or init[0].args.kwarg.arg != "kwargs":
        raise Unrecognised("ArgumentParser.__init__ does not forward **kwargs to argparse")
    return True  # argparse.ArgumentParser(allow_abbrev=True) is the default of the interpreter's argparse


def _remove_from_namespace(tree):
    fn = find_def(tree, "_remove_subgroups_from_namespace", cls="ArgumentParser")
    want = [
        "subgroup_fields = _get_subgroup_fields(self._wrappers)",
        "if not subgroup_fields:\n    return",
        "if not hasattr(parsed_args, 'subgroups'):\n    parsed_args.subgroups = {}",
        "for dest in subgroup_fields:\n    chosen_value = getattr(parsed_args, dest)\n    parsed_args.subgroups[dest] = chosen_value\n"
        "    delattr(parsed_args, dest)",
    ]
    _expect(_texts(fn.body), want, "_remove_subgroups_from_namespace")
    post = find_def(tree, "_postprocessing", cls="ArgumentParser")
    if "self._remove_subgroups_from_namespace(parsed_args)" not in _texts(post.body):
        raise Unrecognised("_postprocessing does not call _remove_subgroups_from_namespace")
    gs = find_def(tree, "_get_subgroup_fields")
    _expect(_texts(gs.body), [
        "subgroup_fields = {}", "all_wrappers = _flatten_wrappers(wrappers)",
        "for wrapper in all_wrappers:\n    for field in wrapper.fields:\n        if field.is_subgroup:\n"
        "            assert field not in subgroup_fields.values()\n            subgroup_fields[field.dest] = field",
        "return subgroup_fields"], "_get_subgroup_fields")
    return True


def _dataclass_wrapper(tree):
    init = find_def(tree, "__init__", cls="DataclassWrapper")
    loops = [s for s in clean(init.body) if isinstance(s, ast.For) and unparse(s.iter) == "dataclass_fields"]
    if len(loops) != 1:
        raise Unrecognised("DataclassWrapper.__init__: loop over dataclass_fields")
    body = clean(loops[0].body)
    chains = [s for s in body if isinstance(s, ast.If) and unparse(s.test).startswith("isinstance(dataclass_fn, functools.partial)")]
    if len(chains) != 1:
        raise Unrecognised("DataclassWrapper.__init__: the field_default decision chain")
    i = body.index(chains[0])
    if i == 0 or unparse(body[i - 1]) != "field_default = dataclasses.MISSING":
        raise Unrecognised("DataclassWrapper.__init__: field_default initialisation")
    arms, els = if_chain(chains[0])
    got = [(unparse(t), [unparse(x) for x in b]) for t, b in arms]
    want = [
        ("isinstance(dataclass_fn, functools.partial) and field.name in dataclass_fn.keywords",
         ["field_default = dataclass_fn.keywords[field.name]"]),
        ("isinstance(default, dict)", ["if field.name in default:\n    field_default = default[field.name]"]),
        ("default not in (None, argparse.SUPPRESS)", ["field_default = getattr(default, field.name)"]),
    ]
    _expect(got, want, "DataclassWrapper.__init__: field_default decision chain")
    if els:
        raise Unrecognised("DataclassWrapper.__init__: field_default chain has an else")
    # the kind chain: choice/sub-parser fields first, both they and plain fields take the pushed-down default
    kinds = [s for s in body if isinstance(s, ast.If) and unparse(s.test) == "utils.is_subparser_field(field) or utils.is_choice(field)"]
    if len(kinds) != 1:
        raise Unrecognised("DataclassWrapper.__init__: the field kind chain")
    karms, kels = if_chain(kinds[0])
    first = [unparse(x) for x in karms[0][1]]
    always = "if field_default is not dataclasses.MISSING:\n    field_wrapper.set_default(field_default)"
    guarded = ("if field_default is not dataclasses.MISSING and (not ('subgroups' in field.metadata and "
               "is_dataclass_instance(field_default))):\n    field_wrapper.set_default(field_default)")
    if len(first) != 3 or first[1] not in (always, guarded):
        raise Unrecognised(f"DataclassWrapper.__init__: choice / sub-parser field: {first}")
    push_instance = first[1] == always   # a subgroup field takes the (dataclass-valued) attribute of a default instance
    _expect([first[0], first[2]], ["field_wrapper = self.field_wrapper_class(field, parent=self, prefix=prefix)",
                                   "self.fields.append(field_wrapper)"], "DataclassWrapper.__init__: choice / sub-parser field")
    _expect([unparse(x) for x in kels],
            ["field_wrapper = self.field_wrapper_class(field, parent=self, prefix=self.prefix)",
             "if field_default is not dataclasses.MISSING:\n    field_wrapper.set_default(field_default)",
             "self.fields.append(field_wrapper)"], "DataclassWrapper.__init__: plain field")
    return True, push_instance


def _field_wrapper(tree):
    cls = find_class(tree, "FieldWrapper")
    props = {}
    for n in cls.body:
        if isinstance(n, ast.FunctionDef) and any(unparse(d) == "property" for d in n.decorator_list):
            props[n.name] = n
    for name in ("default", "required", "subgroup_default", "subgroup_choices", "is_subgroup", "is_subparser"):
        if name not in props:
            raise Unrecognised(f"FieldWrapper.{name} property")
    chain = [s for s in clean(props["default"].body) if isinstance(s, ast.If)]
    if not chain:
        raise Unrecognised("FieldWrapper.default: decision chain")
    arms, _ = if_chain(chain[0])
    tests = [unparse(t) for t, _ in arms]
    if "self._default is not None" not in tests or "self.is_subgroup" not in tests:
        raise Unrecognised(f"FieldWrapper.default: tests {tests[:3]}")
    ip, isg = tests.index("self._default is not None"), tests.index("self.is_subgroup")
    if min(ip, isg) != 0:
        raise Unrecognised("FieldWrapper.default: an unknown test comes first")

    def source_arm(body, want, what):
        """the arm assigns `default` from the expected source; besides that only the `single_value` flag of the ALWAYS_MERGE
        packaging (one value vs. one value per merged destination) may be set - irrelevant to which source wins"""
        texts = [unparse(x) for x in body]
        if not texts or texts[0] != want or any(t not in ("single_value = False", "single_value = True") for t in texts[1:]):
            raise Unrecognised(f"FieldWrapper.default: {what}: expected {want!r} (+ single_value bookkeeping), got {texts}")

    source_arm(arms[ip][1], "default = self._default", "pushed-down default")
    source_arm(arms[isg][1], "default = self.subgroup_default", "subgroup default")
    before = [unparse(x) for x in clean(props["default"].body)[: clean(props["default"].body).index(chain[0])]]
    if any(t != "single_value = True" for t in before):
        raise Unrecognised(f"FieldWrapper.default: statements before the decision chain: {before}")
    preset_first = ip < isg
    rq = _texts(props["required"].body)
    if rq[:2] != ["if self._required is not None:\n    return self._required",
                  "if self.is_subgroup:\n    return self.subgroup_default in (None, dataclasses.MISSING)"]:
        raise Unrecognised("FieldWrapper.required: subgroup rule")
    _expect(_texts(props["is_subgroup"].body), ["return 'subgroups' in self.field.metadata"], "FieldWrapper.is_subgroup")
    _expect(_texts(props["is_subparser"].body),
            ["return utils.is_subparser_field(self.field) and 'subgroups' not in self.field.metadata"], "FieldWrapper.is_subparser")
    _expect(_texts(props["subgroup_default"].body)[-1], "return self.field.metadata.get('subgroup_default')", "FieldWrapper.subgroup_default")
    _expect(_texts(props["subgroup_choices"].body)[-1], "return self.field.metadata['subgroups']", "FieldWrapper.subgroup_choices")
    # __call__: the subgroup field itself contributes no constructor argument
    call = find_def(tree, "__call__", cls="FieldWrapper")
    loops = [n for n in clean(call.body) if isinstance(n, ast.For) and unparse(n.iter) == "zip(self.destinations, values)"]
    if len(loops) != 1:
        raise Unrecognised("FieldWrapper.__call__: loop over the destinations")
    first = clean(loops[0].body)[0]
    if not (isinstance(first, ast.If) and unparse(first.test) == "self.is_subgroup" and [unparse(x) for x in clean(first.body)] == ["return"]):
        raise Unrecognised("FieldWrapper.__call__: subgroup fields are skipped")
    # sub-commands
    sp = find_def(tree, "add_subparsers", cls="FieldWrapper")
    src = unparse(sp)
    for frag in ("required=default_value is dataclasses.MISSING", "dest=self.dest", "parser.set_defaults(**{self.dest: default_value})",
                 "for subcommand, dataclass_type in self.subparsers_dict.items():",
                 "subparser = subparsers.add_parser(subcommand, formatter_class=parser.formatter_class)",
                 "subparser.add_arguments(dataclass_type, dest=self.dest)"):
        if frag not in src:
            raise Unrecognised(f"FieldWrapper.add_subparsers: `{frag}` not found")
    sd = unparse(props["subparsers_dict"]) if "subparsers_dict" in props else ""
    if "utils.get_type_name(dataclass_type).lower(): dataclass_type" not in sd:
        raise Unrecognised("FieldWrapper.subparsers_dict: lower-cased type name as the sub-command")
    return preset_first


_OBJECT_ANNOTATION = [None]


def _subgroups_fn(tree):
    fn = find_def(tree, "subgroups")
    if [a.arg for a in fn.args.args] != ["subgroups"] or [a.arg for a in fn.args.kwonlyargs] != ["default", "default_factory"]:
        raise Unrecognised("subgroups() signature")
    d = kw_defaults(fn)
    if unparse(d["default"]) != "MISSING" or unparse(d["default_factory"]) != "MISSING":
        raise Unrecognised("subgroups() keyword defaults")
    body = clean(fn.body)
    texts = [unparse(s) for s in body]

    def has(prefix):
        hits = [t for t in texts if t.startswith(prefix)]
        if len(hits) != 1:
            raise Unrecognised(f"subgroups(): statement `{prefix[:70]}` found {len(hits)} times")
        return hits[0]

    def raises_value_error(stmt_text):
        return "raise ValueError(" in stmt_text

    both = has("if default_factory is not MISSING and default is not MISSING:")
    if not raises_value_error(both):
        raise Unrecognised("subgroups(): default and default_factory together")
    val = has("if is_dataclass_instance(default):")
    node = body[texts.index(val)]
    arms, els = if_chain(node)
    if [unparse(t) for t, _ in arms] != ["is_dataclass_instance(default)", "default is not MISSING and default not in subgroups.keys()"] or els:
        raise Unrecognised("subgroups(): validation chain of `default`")
    inst_arm = [unparse(x) for x in arms[0][1]]
    if len(inst_arm) != 2 or not inst_arm[0].startswith("if not isinstance(default, Hashable):") or \
            not inst_arm[1].startswith("if default not in subgroups.values():") or not all(map(raises_value_error, inst_arm)):
        raise Unrecognised("subgroups(): validation of an instance default")
    key_arm = [unparse(x) for x in arms[1][1]]
    if len(key_arm) != 1 or not raises_value_error(key_arm[0]):
        raise Unrecognised("subgroups(): validation of a key default")
    fac = has("if default_factory is not MISSING and default_factory not in list(subgroups.values()):")
    if not raises_value_error(fac):
        raise Unrecognised("subgroups(): validation of default_factory")
    # metadata keys
    mkeys = []
    for n in ast.walk(fn):
        if isinstance(n, ast.Assign) and len(n.targets) == 1 and isinstance(n.targets[0], ast.Subscript) \
                and unparse(n.targets[0].value) == "metadata":
            k = const(n.targets[0].slice, str)
            if k not in mkeys:
                mkeys.append(k)
    has("metadata['subgroups'] = subgroups")
    has("metadata['subgroup_dataclass_types'] = subgroup_dataclass_types")
    has("choices = subgroups.keys()")
    # type per key
    loop = has("for subgroup_key, subgroup_value in subgroups.items():")
    lnode = body[texts.index(loop)]
    lb = clean(lnode.body)
    if len(lb) != 3 or not unparse(lb[0]).startswith("if is_lambda(subgroup_value):\n    raise NotImplementedError("):
        raise Unrecognised("subgroups(): per-entry loop")
    tarms, tels = if_chain(lb[1])
    _expect([(unparse(t), [unparse(x) for x in b]) for t, b in tarms],
            [("is_dataclass_instance(subgroup_value)", ["dataclass_type = type(subgroup_value)"]),
             ("is_dataclass_type(subgroup_value)", ["dataclass_type = subgroup_value"])], "subgroups(): dataclass type of an entry")
    if len(tels) != 1 or "dataclass_type = _get_dataclass_type_from_callable(subgroup_value, caller_frame=caller_frame)" not in unparse(tels[0]):
        raise Unrecognised("subgroups(): dataclass type of a callable entry")
    _expect(unparse(lb[2]), "subgroup_dataclass_types[subgroup_key] = dataclass_type", "subgroups(): type table")
    # the dataclass of a callable entry: the class itself; a partial of a class -> that class, a partial of anything else ->
    # whatever its function gives (a function: its return annotation)
    g = find_def(tree, "_get_dataclass_type_from_callable")
    gb = clean(g.body)
    gt = [unparse(x) for x in gb]
    if not gt or gt[0] != "if is_dataclass_type(dataclass_fn):\n    return dataclass_fn":
        raise Unrecognised("_get_dataclass_type_from_callable: a dataclass type is its own answer")
    parts = [x for x in gb if isinstance(x, ast.If) and unparse(x.test) == "isinstance(dataclass_fn, functools.partial)"]
    if len(parts) != 1 or [unparse(x) for x in clean(parts[0].body)] != [
            "if is_dataclass_type(dataclass_fn.func):\n    return dataclass_fn.func",
            "return _get_dataclass_type_from_callable(dataclass_fn=dataclass_fn.func, caller_frame=caller_frame)"]:
        raise Unrecognised("_get_dataclass_type_from_callable: the functools.partial arm")
    # the tail: a string annotation is resolved inside `if isinstance(signature.return_annotation, str):`; after it either the
    # annotation itself is returned when it is a class object, or the function falls off the end (None: the entry cannot be chosen)
    strs = [i for i, x in enumerate(gb) if isinstance(x, ast.If) and unparse(x.test) == "isinstance(signature.return_annotation, str)"]
    if len(strs) != 1 or not unparse(gb[strs[0]]).rstrip().endswith("assert is_dataclass_type(dataclass_fn_type)\n    return dataclass_fn_type"):
        raise Unrecognised("_get_dataclass_type_from_callable: the string-annotation arm")
    tail = gt[strs[0] + 1:]
    if tail == []:
        object_annotation = False
    elif len(tail) == 2 and tail[0].startswith("assert is_dataclass_type(signature.return_annotation)") and tail[1] == "return signature.return_annotation":
        object_annotation = True
    else:
        raise Unrecognised(f"_get_dataclass_type_from_callable: tail {tail}")
    _OBJECT_ANNOTATION[0] = object_annotation
    # what is stored as the default
    st = has("if default is not MISSING:\n    if is_dataclass_instance(default):")
    want = (
        "if default is not MISSING:\n"
        "    if is_dataclass_instance(default):\n"
        "        assert default in subgroups.values()\n"
        "        subgroup_key = [k for k, v in subgroups.items() if v is default][0]\n"
        "        metadata['subgroup_default'] = subgroup_key\n"
        "        default = subgroup_key\n"
        "    else:\n"
        "        assert default in subgroups.keys()\n"
        "        default_factory = subgroups[default]\n"
        "        metadata['subgroup_default'] = default\n"
        "        default = MISSING\n"
        "elif default_factory is not MISSING:\n"
        "    matching_keys = [k for k, v in subgroups.items() if v is default_factory]\n"
        "    if not matching_keys:\n"
        "        matching_keys = [k for k, v in subgroups.items() if v == default_factory]\n"
        "    assert matching_keys\n"
        "    if len(matching_keys) > 1:\n"
        "        raise ValueError(f'Default subgroup {default} is found more than once in the subgroups dict?')\n"
        "    subgroup_default = matching_keys[0]\n"
        "    metadata['subgroup_default'] = subgroup_default\n"
        "else:\n"
        "    metadata['subgroup_default'] = MISSING")
    _expect(st, want, "subgroups(): how the default key is stored")
    ret = texts[-1]
    _expect(ret, "return choice(choices, *args, default=default, default_factory=default_factory, metadata=metadata, **kwargs)",
            "subgroups(): returned field")
    return mkeys


# --------------------------------------------------------------------------------------------------
# sites that used to be tied by the correspondence only (tie audit)


def _add_arguments_forwarding(tree):
    """parsing.py ArgumentParser._add_arguments: does the DataclassWrapper get the callable (partial / replace) and the default
    instance that _resolve_subgroups chose?"""
    fn = find_def(tree, "_add_arguments", cls="ArgumentParser")
    kwonly = [a.arg for a in fn.args.kwonlyargs]
    if [a.arg for a in fn.args.args] != ["self", "dataclass_type", "name"] or \
            kwonly != ["prefix", "dataclass_fn", "default", "dataclass_wrapper_class", "parent"]:
        raise Unrecognised("_add_arguments signature")
    body = clean(fn.body)
    texts = [unparse(x) for x in body]
    calls = [i for i, x in enumerate(body) if isinstance(x, ast.Assign) and unparse(x.targets[0]) == "new_wrapper"
             and isinstance(x.value, ast.Call) and unparse(x.value.func) == "dataclass_wrapper_class"]
    if len(calls) != 1:
        raise Unrecognised("_add_arguments: construction of the wrapper")
    i = calls[0]
    if i == 0 or texts[i - 1] != "dataclass_fn = dataclass_fn or dataclass_type":
        raise Unrecognised("_add_arguments: `dataclass_fn = dataclass_fn or dataclass_type` right before the wrapper is built")
    # nothing before the construction may touch `dataclass_fn`; `default` only in the known instance-as-type block
    for t in texts[: i - 1]:
        if "dataclass_fn =" in t.replace("dataclass_fn is", "") and not t.startswith("assert"):
            raise Unrecognised("_add_arguments: dataclass_fn reassigned before the wrapper is built")
        if "default =" in t and t != ("if not isinstance(dataclass_type, type):\n    if default is None:\n        default = dataclass_type\n"
                                      "    dataclass_type = type(dataclass_type)"):
            raise Unrecognised(f"_add_arguments: default reassigned before the wrapper is built: {t[:80]}")
    call = body[i].value
    if call.args:
        raise Unrecognised("_add_arguments: positional arguments to the wrapper class")
    kws = {k.arg: unparse(k.value) for k in call.keywords}
    if None in kws or set(kws) - {"dataclass", "name", "prefix", "default", "parent", "dataclass_fn"}:
        raise Unrecognised(f"_add_arguments: wrapper keywords {sorted(map(str, kws))}")
    for k, want in (("dataclass", "dataclass_type"), ("name", "name"), ("parent", "parent")):
        if kws.get(k) != want:
            raise Unrecognised(f"_add_arguments: wrapper keyword {k}={kws.get(k)}")

    def forwarded(k, other):
        v = kws.get(k)
        if v == k:
            return True
        if v in other:
            return False
        raise Unrecognised(f"_add_arguments: wrapper keyword {k}={v}")
    fwd_fn = forwarded("dataclass_fn", (None, "dataclass_type", "None"))
    fwd_default = forwarded("default", (None, "None"))
    if texts[-1] != "return new_wrapper":
        raise Unrecognised("_add_arguments: return")
    return fwd_fn, fwd_default


def _instantiation_order(tree):
    """parsing.py ArgumentParser._instantiate_dataclasses: deepest wrappers first, each value stored in its parent's
    constructor arguments, the wrapper's dataclass_fn as the constructor"""
    fn = find_def(tree, "_instantiate_dataclasses", cls="ArgumentParser")
    body = clean(fn.body)
    srt = [x for x in body if isinstance(x, (ast.Assign, ast.AnnAssign)) and "sorted_dc_wrappers" in unparse(x.target if isinstance(x, ast.AnnAssign) else x.targets[0])]
    if len(srt) != 1 or not isinstance(srt[0].value, ast.Call) or unparse(srt[0].value.func) != "sorted":
        raise Unrecognised("_instantiate_dataclasses: sorted_dc_wrappers")
    call = srt[0].value
    kws = {k.arg: k.value for k in call.keywords}
    if [unparse(a) for a in call.args] != ["wrappers"] or set(kws) - {"key", "reverse"} or "key" not in kws \
            or unparse(kws["key"]) != "lambda w: w.nesting_level":
        raise Unrecognised(f"_instantiate_dataclasses: sort key {unparse(call)}")
    bottom_up = const(kws["reverse"], bool) if "reverse" in kws else False
    loops = [x for x in body if isinstance(x, ast.For)]
    if len(loops) != 1 or unparse(loops[0].iter) != "sorted_dc_wrappers" or unparse(loops[0].target) != "dc_wrapper":
        raise Unrecognised("_instantiate_dataclasses: loop over sorted_dc_wrappers")
    inner = [x for x in clean(loops[0].body) if isinstance(x, ast.For)]
    if len(inner) != 1 or unparse(inner[0].iter) != "dc_wrapper.destinations":
        raise Unrecognised("_instantiate_dataclasses: loop over the destinations")
    ib = clean(inner[0].body)
    it = [unparse(x) for x in ib]
    for want in ("constructor = dc_wrapper.dataclass_fn", "constructor_args = constructor_arguments.pop(destination)"):
        if want not in it:
            raise Unrecognised(f"_instantiate_dataclasses: `{want}`")
    if not any("value_for_dataclass_field = _create_dataclass_instance(dc_wrapper, constructor, constructor_args)" in t for t in it):
        raise Unrecognised("_instantiate_dataclasses: the instance is created by _create_dataclass_instance(dc_wrapper, constructor, constructor_args)")
    place = [x for x in ib if isinstance(x, ast.If) and "dc_wrapper.parent is not None" in unparse(x)]
    if len(place) != 1:
        raise Unrecognised("_instantiate_dataclasses: where the value goes")
    arms, _ = if_chain(place[0])
    parent_arm = [b for t, b in arms if unparse(t) == "dc_wrapper.parent is not None"]
    if len(parent_arm) != 1 or [unparse(x) for x in parent_arm[0]] != [
            "parent_key, attr = utils.split_dest(destination)", "constructor_arguments[parent_key][attr] = value_for_dataclass_field"]:
        raise Unrecognised("_instantiate_dataclasses: a child's value is stored in the parent's constructor arguments")
    return bottom_up


def _main_parser_registers_subgroups(tree):
    """dataclass_wrapper.py DataclassWrapper.add_arguments: resolved subgroup fields are added to the main parser too"""
    fn = find_def(tree, "add_arguments", cls="DataclassWrapper")
    loops = [x for x in clean(fn.body) if isinstance(x, ast.For) and unparse(x.iter) == "self.fields"]
    if len(loops) != 1 or unparse(loops[0].target) != "wrapped_field":
        raise Unrecognised("DataclassWrapper.add_arguments: loop over self.fields")
    lb = clean(loops[0].body)
    texts = [unparse(x) for x in lb]
    want_head = ["assert wrapped_field.field.metadata.get('cmd', True)",
                 "if wrapped_field.is_subparser:\n    wrapped_field.add_subparsers(parser)\n    continue",
                 "arg_options = wrapped_field.arg_options",
                 "if argparse.SUPPRESS in self.defaults:\n    arg_options['default'] = argparse.SUPPRESS"]
    if texts[:4] != want_head or texts[-1] != "_ = group.add_argument(*wrapped_field.option_strings, **arg_options)":
        raise Unrecognised("DataclassWrapper.add_arguments: loop body")
    rest = lb[4:-1]
    if len(rest) == 0:
        return True
    if len(rest) == 1 and isinstance(rest[0], ast.If) and unparse(rest[0].test) == "wrapped_field.is_subgroup" and not clean(rest[0].orelse):
        inner = clean(rest[0].body)
        if inner == []:
            return True           # only a log line: the subgroup option is added like any other
        if [type(x) for x in inner] == [ast.Continue]:
            return False
    raise Unrecognised("DataclassWrapper.add_arguments: treatment of subgroup fields")


def _choice_options(tree, fields_tree):
    """How the table's keys become argparse `choices` of the subgroup option: helpers/fields.py choice() hands `choices=` to field(),
    which stores every extra keyword under metadata['custom_args']; FieldWrapper.arg_options lets these custom options overwrite
    the generated ones (get_arg_options: type=str, choices, required, default) - so the custom route is the one that decides."""
    fn = find_def(tree, "get_arg_options", cls="FieldWrapper")
    body = clean(fn.body)
    texts = [unparse(x) for x in body]
    if "_arg_options['default'] = self.default" not in texts:
        raise Unrecognised("get_arg_options: default")
    pos = [t for t in texts if t.startswith("if not self.field.metadata.get('positional'):")]
    if len(pos) != 1 or "_arg_options['required'] = self.required" not in pos[0] or "_arg_options['dest'] = self.dest" not in pos[0]:
        raise Unrecognised("get_arg_options: required / dest")
    chains = [x for x in body if isinstance(x, ast.If) and unparse(x.test) == "self.is_choice"]
    if len(chains) != 1:
        raise Unrecognised("get_arg_options: the choice arm")
    arm = [unparse(x) for x in clean(chains[0].body)]
    allowed = {"choices = self.choices", "assert choices", "item_type = str", "_arg_options['type'] = item_type",
               "_arg_options['choices'] = choices",
               "if utils.is_list(self.type):\n    _arg_options['nargs'] = argparse.ZERO_OR_MORE", "_arg_options.pop('metavar', None)"}
    if set(arm) - allowed or "item_type = str" not in arm or "_arg_options['type'] = item_type" not in arm or "choices = self.choices" not in arm:
        raise Unrecognised(f"get_arg_options: choice arm {arm}")
    generated = "_arg_options['choices'] = choices" in arm      # same value as the custom option; overwritten by it
    # nothing after the chain may drop the choices again
    after = texts[body.index(chains[0]) + 1:]
    if any("choices" in t for t in after):
        raise Unrecognised("get_arg_options: choices touched after the choice arm")
    props = {n.name: n for n in find_class(tree, "FieldWrapper").body if isinstance(n, ast.FunctionDef)}
    ch = unparse(props["choices"]) if "choices" in props else ""
    if "if 'choices' in self.field.metadata:\n        return list(self.field.metadata['choices'])" not in ch:
        raise Unrecognised("FieldWrapper.choices: the field's metadata['choices']")
    ic = unparse(props["is_choice"]) if "is_choice" in props else ""
    if "return self.choices is not None" not in ic:
        raise Unrecognised("FieldWrapper.is_choice")
    if "if 'choices' in self.custom_arg_options:\n        return self.custom_arg_options['choices']" not in ch:
        raise Unrecognised("FieldWrapper.choices: custom choices first")
    ao = unparse(props["arg_options"]) if "arg_options" in props else ""
    for frag in ("options = self.get_arg_options()", "options.update(self.custom_arg_options)"):
        if frag not in ao:
            raise Unrecognised(f"FieldWrapper.arg_options: `{frag}`")
    if ao.index("options = self.get_arg_options()") > ao.index("options.update(self.custom_arg_options)"):
        raise Unrecognised("FieldWrapper.arg_options: custom options no longer overwrite the generated ones")
    if "return self.field.metadata.get('custom_args', {})" not in unparse(props.get("custom_arg_options", ast.Pass())):
        raise Unrecognised("FieldWrapper.custom_arg_options")
    fld = find_def(fields_tree, "field")
    if fld.args.kwarg is None or fld.args.kwarg.arg != "custom_argparse_args" or \
            "if custom_argparse_args:\n        _metadata.update({'custom_args': custom_argparse_args})" not in unparse(fld):
        raise Unrecognised("fields.field(): extra keywords are stored under metadata['custom_args']")
    ch_fn = find_def(fields_tree, "choice")
    ret = clean(ch_fn.body)[-1]
    if not (isinstance(ret, ast.Return) and isinstance(ret.value, ast.Call) and unparse(ret.value.func) == "field"):
        raise Unrecognised("fields.choice(): returned field")
    kws = {k.arg: unparse(k.value) for k in ret.value.keywords}
    if kws.get("default") != "default" or None not in kws or set(kws) - {"default", "choices", None}:
        raise Unrecognised(f"fields.choice(): keywords of the returned field {kws}")
    if "choices" in kws and kws["choices"] != "choices":
        raise Unrecognised("fields.choice(): choices handed on as something else")
    custom = "choices" in kws
    if not custom and generated:
        raise Unrecognised("choices only on the generated route: FieldWrapper.is_choice would no longer hold for a subgroup field")
    return custom


def _setup_sees_argv(tree):
    """parsing.py: parse_known_args hands the command line (and the namespace) to _preprocessing, which hands them to
    _resolve_subgroups before any argument is added"""
    pk = find_def(tree, "parse_known_args", cls="ArgumentParser")
    calls = [x for x in ast.walk(pk) if isinstance(x, ast.Call) and unparse(x.func) == "self._preprocessing"]
    if len(calls) != 1 or calls[0].args:
        raise Unrecognised("parse_known_args: call of _preprocessing")
    k1 = {k.arg: unparse(k.value) for k in calls[0].keywords}
    pp = find_def(tree, "_preprocessing", cls="ArgumentParser")
    if [a.arg for a in pp.args.args] != ["self", "args", "namespace"]:
        raise Unrecognised("_preprocessing signature")
    body = clean(pp.body)
    texts = [unparse(x) for x in body]
    rs = [i for i, t in enumerate(texts) if "self._resolve_subgroups(" in t]
    add = [i for i, t in enumerate(texts) if "wrapped_dataclass.add_arguments(parser=self)" in t]
    if len(rs) != 1 or len(add) != 1 or not rs[0] < add[0]:
        raise Unrecognised("_preprocessing: subgroups are resolved before the arguments are added")
    node = body[rs[0]]
    if not (isinstance(node, ast.Assign) and isinstance(node.value, ast.Call) and not node.value.args):
        raise Unrecognised("_preprocessing: call of _resolve_subgroups")
    k2 = {k.arg: unparse(k.value) for k in node.value.keywords}
    if k2.get("wrappers") != "wrapped_dataclasses" or set(k2) != {"wrappers", "args", "namespace"}:
        raise Unrecognised(f"_preprocessing: _resolve_subgroups keywords {k2}")
    if k1.get("namespace") != "namespace" or k2.get("namespace") != "namespace" or set(k1) != {"args", "namespace"}:
        raise Unrecognised("the namespace of the call is not the one the subgroup pre-pass fills")
    between = [t for t in texts[: rs[0]] if t.startswith("args =")]
    if between not in ([], ["args = list(args)"]):
        raise Unrecognised(f"_preprocessing: args rewritten before the subgroups are resolved: {between}")

    def sees(v):
        if v == "args":
            return True
        if v in ("[]", "()", "list()"):
            return False
        raise Unrecognised(f"command line handed on as {v}")
    s1, s2 = sees(k1.get("args")), sees(k2.get("args"))
    main = [x for x in ast.walk(pk) if isinstance(x, ast.Call) and unparse(x.func) == "super().parse_known_args"]
    if not main or unparse(main[0]) != "super().parse_known_args(args, namespace)":
        raise Unrecognised("parse_known_args: the main parse")
    return s1 and s2


def emit(repo: str) -> str:
    parsing = parse(repo, "simple_parsing/parsing.py")
    dw = parse(repo, "simple_parsing/wrappers/dataclass_wrapper.py")
    fw = parse(repo, "simple_parsing/wrappers/field_wrapper.py")
    sg = parse(repo, "simple_parsing/helpers/subgroups.py")
    r = _resolve_subgroups(parsing)
    main_abbrev = _main_abbrev(parsing)
    report_ns = _remove_from_namespace(parsing)
    partial_kw, push_instance = _dataclass_wrapper(dw)
    preset_first = _field_wrapper(fw)
    mkeys = _subgroups_fn(sg)
    fwd_fn, fwd_default = _add_arguments_forwarding(parsing)
    bottom_up = _instantiation_order(parsing)
    main_has_sg = _main_parser_registers_subgroups(dw)
    validates = _choice_options(fw, parse(repo, "simple_parsing/helpers/fields.py"))
    sees_argv = _setup_sees_argv(parsing)
    args = ("sub_abbrev_gen main_abbrev_gen partial_kw_gen inst_default_gen preset_wins_gen loop_breaks_gen report_ns_gen "
            "validates_gen main_registers_subgroup_options_gen setup_sees_argv_gen instantiates_bottom_up_gen")
    return (
        "From SPV Require Import Base.Str Model.Subgroups.\nOpen Scope string_scope.\n"
        f"Definition sub_abbrev_gen : bool := {cb(r['sub_abbrev'])}.         (* allow_abbrev of the throw-away subgroup parser *)\n"
        f"Definition main_abbrev_gen : bool := {cb(main_abbrev)}.        (* ArgumentParser.__init__ leaves argparse's allow_abbrev alone *)\n"
        f"Definition wrapper_uses_partial_keywords_gen : bool := {cb(partial_kw)}.   (* DataclassWrapper: partial keywords / default-instance attributes become field defaults *)\n"
        f"Definition add_arguments_forwards_fn_gen : bool := {cb(fwd_fn)}.        (* _add_arguments: dataclass_fn=dataclass_fn reaches the wrapper *)\n"
        f"Definition add_arguments_forwards_default_gen : bool := {cb(fwd_default)}.   (* _add_arguments: default=default reaches the wrapper *)\n"
        f"Definition round_passes_instance_gen : bool := {cb(r['inst_default'])}.       (* frozen instance -> default=instance, partial(dataclasses.replace, instance) *)\n"
        "Definition partial_kw_gen : bool := wrapper_uses_partial_keywords_gen && add_arguments_forwards_fn_gen.\n"
        "Definition inst_default_gen : bool := round_passes_instance_gen && add_arguments_forwards_default_gen && wrapper_uses_partial_keywords_gen.\n"
        f"Definition field_default_preset_first_gen : bool := {cb(preset_first)}.   (* FieldWrapper.default: `_default` before `subgroup_default` *)\n"
        f"Definition round_asserts_default_gen : bool := {cb(r['asserts_default'])}.    (* assert argument_options['default'] is subgroup_default *)\n"
        f"Definition subgroup_field_takes_instance_default_gen : bool := {cb(push_instance)}.   (* DataclassWrapper pushes a default instance's attribute into a subgroup FieldWrapper *)\n"
        "Definition preset_wins_gen : bool := subgroup_field_takes_instance_default_gen && field_default_preset_first_gen && round_asserts_default_gen.\n"
        f"Definition loop_breaks_gen : bool := {cb(r['loop_breaks'])}.        (* `if not unresolved_subgroups: break` ends the itertools.count() loop *)\n"
        f"Definition report_ns_gen : bool := {cb(report_ns)}.          (* namespace.subgroups[dest] = getattr(parsed_args, dest); delattr *)\n"
        f"Definition validates_gen : bool := {cb(validates)}.          (* fields.choice() -> field(choices=...) -> custom_args overwrite the generated options: argparse validates every key *)\n"
        f"Definition main_registers_subgroup_options_gen : bool := {cb(main_has_sg)}.   (* DataclassWrapper.add_arguments does not skip subgroup fields *)\n"
        f"Definition setup_sees_argv_gen : bool := {cb(sees_argv)}.     (* parse_known_args -> _preprocessing -> _resolve_subgroups(args=args, namespace=namespace) *)\n"
        f"Definition instantiates_bottom_up_gen : bool := {cb(bottom_up)}.   (* sorted(wrappers, key=nesting_level, reverse=True); child value into the parent's arguments *)\n"
        f"Definition callable_type_from_object_annotation_gen : bool := {cb(_OBJECT_ANNOTATION[0])}.   (* _get_dataclass_type_from_callable: `-> A` (class object) gives A *)\n"
        "Definition resolves_conflicts_each_round_gen : bool := true.\n"
        "Definition default_validated_gen : bool := true.    (* subgroups(): ValueError unless the default is a key / a value of the table *)\n"
        "Definition default_stored_as_key_gen : bool := true. (* metadata['subgroup_default'] is always the KEY (instance / factory looked up) *)\n"
        f"Definition METADATA_KEYS_gen : list string := {cstrs(mkeys)}.\n"
        "(* the model instantiated with the regenerated facts *)\n"
        "Definition round_gen := round sub_abbrev_gen inst_default_gen preset_wins_gen validates_gen.\n"
        "Definition loop_gen := loop sub_abbrev_gen inst_default_gen preset_wins_gen loop_breaks_gen validates_gen.\n"
        "Definition resolve_gen := resolve sub_abbrev_gen inst_default_gen preset_wins_gen loop_breaks_gen validates_gen setup_sees_argv_gen.\n"
        "Definition registered_gen := registered main_registers_subgroup_options_gen.\n"
        "Definition final_gen := final main_abbrev_gen partial_kw_gen inst_default_gen report_ns_gen main_registers_subgroup_options_gen instantiates_bottom_up_gen.\n"
        f"Definition parse_gen := parse {args}.\n"
        "Definition cmd_parse_gen := cmd_parse main_abbrev_gen.\n"
    )
