"""Facts for the attribute-docstring scanner (simple_parsing/docstring.py) and the help precedence.

Monitored, fail closed:
  * the literals of `_contains_field_definition` ('#', ':', '='), of `_is_comment` / `_get_comment_at_line` /
    `_get_inline_comment_at_line` ('#'), the triple-quote tokens of `_get_docstring_starting_at_line` and of the upward
    walk `_get_comment_ending_at_line`, the join separators;
  * the SHAPE of every scanner function: each function body, with string literals replaced by placeholders and
    docstrings / logger calls removed, must be textually equal (ast.unparse) to the shape the Gallina model
    (coq/Model/DocScan.v) was written from - any other edit raises Unrecognised (the tie is reported broken);
  * the MRO accumulation rule of `get_attribute_docstring` (first class that defines the field, then
    `created.P = created.P or attribute.P` for the listed parts P) -> ACC_PARTS;
  * the or-chains of `AttributeDocString.help_string` and `FieldWrapper.help` -> HELP_STRING_CHAIN / HELP_CHAIN, and
    the statements around the latter (explicit help= first, "" -> None).

  * `_split_at_comment` (the inline comment starts at the first '#' outside a string literal): the frame of its while
    loop is checked and the if/elif chain of the loop body is TRANSLATED into `split_step_gen`;
  * (tie audit) the decorators of every scanner function (lru_cache on `_get_attribute_docstring` -> CACHED / CACHE_SIZE),
    the module-level oracle wrappers dp_parse / inspect_getsource / inspect_getdoc (ORACLES), how FieldWrapper.__init__
    obtains `_docstring` (try / fall-back to the empty record) and that `_help` is only written by the help property,
    the if-chain of FieldWrapper.get_arg_options that produces the action's help= (ACTION_HELP_TABLE, TEMPORARY_TOKEN),
    and that DataclassWrapper builds every FieldWrapper as field_wrapper_class(field, parent=self, ..) with
    self.dataclass = the wrapped class (FIELD_WRAPPER_BUILDS);
  * three repaired places (the cache aliasing in get_attribute_docstring, the upward comment walk, the class-docstring
    entry of a class that does not declare the field): the shape before AND after each repair is recognised and a
    boolean fact FIX_ALIAS / FIX_WALK / FIX_ENTRY says which one the source has.

Output: coq/Gen/FactsDoc.v (imports Model.DocScan and instantiates it)."""
from __future__ import annotations

import ast
import copy

from .pyast import Unrecognised, clean, const, cstr, find_class, find_def, is_logger_call, kw_defaults, parse, unparse

PARTS = {"comment_above": "PAbove", "comment_inline": "PInline", "docstring_below": "PBelow",
         "desc_from_cls_docstring": "PCls"}


class _Skel(ast.NodeTransformer):
    """String literals -> S<i> placeholders (collected in visiting order); f-strings -> FSTR; docstring
    expression statements and logger calls dropped at every nesting level."""

    def __init__(self):
        self.consts = []

    def visit_Constant(self, n):
        if isinstance(n.value, str):
            self.consts.append(n.value)
            return ast.Name(id=f"S{len(self.consts) - 1}", ctx=ast.Load())
        return n

    def visit_JoinedStr(self, n):
        return ast.Name(id="FSTR", ctx=ast.Load())

    def _body(self, body):
        out = []
        for s in body:
            if is_logger_call(s):
                continue
            if isinstance(s, ast.Expr) and isinstance(s.value, ast.Constant) and isinstance(s.value.value, str):
                continue
            out.append(self.visit(s))
        return out or [ast.Pass()]

    def generic_visit(self, node):
        for f in ("body", "orelse", "finalbody"):
            if hasattr(node, f) and isinstance(getattr(node, f), list):
                setattr(node, f, self._body(getattr(node, f)) if getattr(node, f) else [])
        for field, old in ast.iter_fields(node):
            if field in ("body", "orelse", "finalbody") and isinstance(old, list):
                continue
            if isinstance(old, list):
                old[:] = [self.visit(v) if isinstance(v, ast.AST) else v for v in old]
            elif isinstance(old, ast.AST):
                setattr(node, field, self.visit(old))
        return node


def skeleton(fn):
    fn = copy.deepcopy(fn)
    fn.decorator_list = []
    fn.returns = None
    sk = _Skel()
    fn = sk.visit(fn)
    return ast.unparse(ast.fix_missing_locations(fn)) + "\n", sk.consts


EXPECT = {
    '_get_attribute_docstring': (
        'def _get_attribute_docstring(dataclass: type, field_name: str):\n'
        '    try:\n'
        '        source = inspect_getsource(dataclass)\n'
        '    except (TypeError, OSError) as e:\n'
        '        return None\n'
        '    desc_from_cls_docstring = S0\n'
        '    cls_docstring = inspect_getdoc(dataclass)\n'
        '    if cls_docstring:\n'
        '        docstring: Docstring = dp_parse(cls_docstring)\n'
        '        for param in docstring.params:\n'
        '            if param.arg_name == field_name:\n'
        '                desc_from_cls_docstring = param.description or S1\n'
        '    if dataclass.__doc__ and dataclass.__doc__ in source:\n'
        '        source = source.replace(dataclass.__doc__, S2, 1)\n'
        '    code_lines: list[str] = source.splitlines()\n'
        '    start_line_index = 1\n'
        '    while start_line_index < len(code_lines):\n'
        '        if _contains_field_definition(code_lines[start_line_index]):\n'
        '            break\n'
        '        start_line_index += 1\n'
        '    lines_with_field_defs = [(index, line) for index, line in enumerate(code_lines) if _contains_field_definition(line)]\n'
        '    for i, line in lines_with_field_defs:\n'
        '        if _line_contains_definition_for(line, field_name):\n'
        '            comment_above = _get_comment_ending_at_line(code_lines, i - 1)\n'
        '            comment_inline = _get_inline_comment_at_line(code_lines, i)\n'
        '            docstring_below = _get_docstring_starting_at_line(code_lines, i + 1)\n'
        '            return AttributeDocString(comment_above, comment_inline, docstring_below, desc_from_cls_docstring=desc_from_cls_docstring)\n'
        '    return None\n'
    ),
    '_contains_field_definition': (
        'def _contains_field_definition(line: str):\n'
        '    line, _, _ = line.partition(S0)\n'
        '    if S1 not in line:\n'
        '        return False\n'
        '    if S3 in line:\n'
        '        attribute_and_type, _, _ = line.partition(S2)\n'
        '    else:\n'
        '        attribute_and_type = line\n'
        '    field_name, _, type = attribute_and_type.partition(S4)\n'
        '    field_name = field_name.strip()\n'
        '    if S5 in type:\n'
        '        return False\n'
        '    if not field_name:\n'
        '        return False\n'
        '    return field_name.isidentifier()\n'
    ),
    '_line_contains_definition_for': (
        'def _line_contains_definition_for(line: str, field_name: str):\n'
        '    line = line.strip()\n'
        '    if not _contains_field_definition(line):\n'
        '        return False\n'
        '    attribute, _, type_and_value_assignment = line.partition(S0)\n'
        '    attribute = attribute.strip()\n'
        '    return attribute.isidentifier() and attribute == field_name\n'
    ),
    '_is_empty': (
        'def _is_empty(line_str: str):\n'
        '    return line_str.strip() == S0\n'
    ),
    '_is_comment': (
        'def _is_comment(line_str: str):\n'
        '    return line_str.strip().startswith(S0)\n'
    ),
    '_get_comment_at_line': (
        'def _get_comment_at_line(code_lines: list[str], line: int):\n'
        '    line_str = code_lines[line]\n'
        '    assert not _contains_field_definition(line_str)\n'
        '    if S1 not in line_str:\n'
        '        return S0\n'
        '    parts = line_str.split(S2, maxsplit=1)\n'
        '    comment = parts[1].strip()\n'
        '    return comment\n'
    ),
    '_get_inline_comment_at_line': (
        'def _get_inline_comment_at_line(code_lines: list[str], line: int):\n'
        '    assert 0 <= line < len(code_lines)\n'
        '    assert _contains_field_definition(code_lines[line])\n'
        '    line_str = code_lines[line]\n'
        '    _, comment = _split_at_comment(line_str)\n'
        '    if comment is None:\n'
        '        return S0\n'
        '    return comment.strip()\n'
    ),
    '_get_comment_ending_at_line': (
        'def _get_comment_ending_at_line(code_lines: list[str], line: int):\n'
        '    start_line = line\n'
        '    end_line = line\n'
        '    while start_line > 0:\n'
        '        line_str = code_lines[start_line]\n'
        '        if _contains_field_definition(line_str):\n'
        '            break\n'
        '        if S0 in line_str or S1 in line_str:\n'
        '            break\n'
        '        start_line -= 1\n'
        '    start_line += 1\n'
        '    lines = []\n'
        '    for i in range(start_line, end_line + 1):\n'
        '        if _is_empty(code_lines[i]):\n'
        '            continue\n'
        '        assert not _contains_field_definition(code_lines[i])\n'
        '        comment = _get_comment_at_line(code_lines, i)\n'
        '        lines.append(comment)\n'
        '    return S2.join(lines).strip()\n'
    ),
    '_get_docstring_starting_at_line': (
        'def _get_docstring_starting_at_line(code_lines: list[str], line: int):\n'
        '    i = line\n'
        '    token: str | None = None\n'
        '    triple_single = S0\n'
        '    triple_double = S1\n'
        '    if line >= len(code_lines):\n'
        '        return S2\n'
        '    docstring_contents: list[str] = []\n'
        '    while i < len(code_lines):\n'
        '        line_str = code_lines[i]\n'
        '        if token is None:\n'
        '            if _is_empty(line_str):\n'
        '                i += 1\n'
        '                continue\n'
        '            elif _contains_field_definition(line_str) or _is_comment(line_str):\n'
        '                return S3\n'
        '            elif triple_single in line_str and triple_double in line_str:\n'
        '                triple_single_index = line_str.index(triple_single)\n'
        '                triple_double_index = line_str.index(triple_double)\n'
        '                if triple_single_index < triple_double_index:\n'
        '                    token = triple_single\n'
        '                else:\n'
        '                    token = triple_double\n'
        '            elif triple_double in line_str:\n'
        '                token = triple_double\n'
        '            elif triple_single in line_str:\n'
        '                token = triple_single\n'
        '            else:\n'
        '                return S4\n'
        '            parts = line_str.split(token, maxsplit=2)\n'
        '            if len(parts) == 3:\n'
        '                between_tokens = parts[1].strip()\n'
        '                docstring_contents.append(between_tokens)\n'
        '                break\n'
        '            elif len(parts) == 2:\n'
        '                after_token = parts[1].strip()\n'
        '                docstring_contents.append(after_token)\n'
        '        elif token in line_str:\n'
        '            before = line_str.split(token, maxsplit=1)[0]\n'
        '            docstring_contents.append(before.strip())\n'
        '            break\n'
        '        else:\n'
        '            docstring_contents.append(line_str.strip())\n'
        '        i += 1\n'
        '    return S5.join(docstring_contents)\n'
    ),
}

EXPECT_GET = (
    'def get_attribute_docstring(dataclass: type, field_name: str, accumulate_from_bases: bool=True):\n'
    '    created_docstring: AttributeDocString | None = None\n'
    '    mro = inspect.getmro(dataclass)\n'
    '    assert mro[0] is dataclass\n'
    '    assert mro[-1] is object\n'
    '    mro = mro[:-1]\n'
    '    for base_class in mro:\n'
    '        attribute_docstring = _get_attribute_docstring(base_class, field_name)\n'
    '        if not attribute_docstring:\n'
    '            continue\n'
    '        if not created_docstring:\n'
    '            created_docstring = attribute_docstring\n'
    '            if not accumulate_from_bases:\n'
    '                return created_docstring\n'
    '        else:\n'
    '            ACCUMULATE\n'
    '    if not created_docstring:\n'
    '        return AttributeDocString()\n'
    '    return created_docstring\n'
)

EXPECT_HELP = (
    'def help(self):\n'
    '    if self._help:\n'
    '        return self._help\n'
    '    if self.field.metadata.get(S1):\n'
    '        return self.field.metadata.get(S0)\n'
    '    self._help = CHAIN\n'
    '    if self._help == S2:\n'
    '        self._help = None\n'
    '    return self._help\n'
)


# --- repaired places: the shape before the repair and the shape after it are both recognised; which one is
# present is emitted as a boolean fact (FIX_WALK / FIX_ENTRY / FIX_ALIAS) that the model takes as an argument ----
_WALK_OLD = "        start_line -= 1\n"
_WALK_NEW = ("        if not (_is_empty(line_str) or _is_comment(line_str)):\n"
             "            break\n"
             "        start_line -= 1\n")
_ENTRY_OLD = "    return None\n"
_ENTRY_NEW = ("    if desc_from_cls_docstring:\n"
              "        return AttributeDocString(desc_from_cls_docstring=desc_from_cls_docstring)\n"
              "    return None\n")
_ALIAS_OLD = "            created_docstring = attribute_docstring\n"
_ALIAS_NEW = ["            created_docstring = replace(attribute_docstring)\n",
              "            created_docstring = dataclasses.replace(attribute_docstring)\n"]


def _repaired(name):
    """the post-repair shape of EXPECT[name]"""
    base = EXPECT[name]
    if name == "_get_comment_ending_at_line":
        assert base.count(_WALK_OLD) == 1
        return base.replace(_WALK_OLD, _WALK_NEW)
    if name == "_get_attribute_docstring":
        assert base.endswith(_ENTRY_OLD)
        return base[: -len(_ENTRY_OLD)] + _ENTRY_NEW
    return None


def _check(tree, name, consts_ok, cls=None, repairable=False):
    """-> consts_ok(consts), or (that, repaired: bool) for a repairable place"""
    fn = find_def(tree, name, cls=cls)
    text, consts = skeleton(fn)
    if repairable and text == _repaired(name):
        r = consts_ok(consts)
        if r is None:
            raise Unrecognised(f"{name}: literals {consts!r} not in the expected pattern")
        return r, True
    if text != EXPECT[name]:
        import difflib
        d = [l for l in difflib.unified_diff(EXPECT[name].splitlines(), text.splitlines(), lineterm="", n=0)
             if not l.startswith(("---", "+++", "@@"))]
        raise Unrecognised(f"{name}: shape changed: " + " | ".join(d)[:400])
    r = consts_ok(consts)
    if r is None:
        raise Unrecognised(f"{name}: literals {consts!r} not in the expected pattern")
    return (r, False) if repairable else r


# --- _split_at_comment: the frame of the loop is checked, the decision chain of its body is TRANSLATED ---------
def _split_step(fn, H):
    """-> Gallina text of `split_step_gen (quote : option ascii) (char : ascii) : sstep`"""
    body = [b for b in fn.body if not (isinstance(b, ast.Expr) and isinstance(b.value, ast.Constant))]
    if [a.arg for a in fn.args.args] != ["line"] or len(body) != 4:
        raise Unrecognised("_split_at_comment: signature / number of statements")
    init_q, init_i, loop, ret = body
    if not (isinstance(init_q, (ast.AnnAssign, ast.Assign)) and unparse(init_q).replace("quote: str | None = ", "quote = ") == "quote = None"):
        raise Unrecognised("_split_at_comment: initial quote")
    if unparse(init_i) != "i = 0":
        raise Unrecognised("_split_at_comment: initial index")
    if not (isinstance(ret, ast.Return) and unparse(ret) == "return (line, None)"):
        raise Unrecognised("_split_at_comment: final return")
    if not (isinstance(loop, ast.While) and unparse(loop.test) == "i < len(line)" and not loop.orelse and len(loop.body) == 3
            and unparse(loop.body[0]) == "char = line[i]" and isinstance(loop.body[1], ast.If) and unparse(loop.body[2]) == "i += 1"):
        raise Unrecognised("_split_at_comment: loop frame")
    seen_hash = []

    def cond(n, q):
        if isinstance(n, ast.BoolOp):
            op = " || " if isinstance(n.op, ast.Or) else " && "
            return "(" + op.join(cond(v, q) for v in n.values) + ")"
        if isinstance(n, ast.Compare) and len(n.ops) == 1 and isinstance(n.ops[0], ast.Eq) and unparse(n.left) == "char":
            r = n.comparators[0]
            if isinstance(r, ast.Constant) and isinstance(r.value, str) and len(r.value) == 1:
                if r.value == H:
                    seen_hash.append(1)
                return f"Ascii.eqb char {_cchar_any(r.value)}"
            if isinstance(r, ast.Name) and r.id == "quote" and q:
                return "Ascii.eqb char q"
        raise Unrecognised(f"_split_at_comment: condition {unparse(n)[:80]}")

    def action(stmts, q):
        if not stmts:
            return "SKeep"
        if len(stmts) == 1 and isinstance(stmts[0], ast.If):
            return chain(stmts[0], q)
        if len(stmts) != 1:
            raise Unrecognised("_split_at_comment: arm with several statements")
        t = unparse(stmts[0])
        if t == "i += 1":
            return "SSkipNext"
        if t == "quote = None":
            return "SQuote None"
        if t == "quote = char":
            return "SQuote (Some char)"
        if t == "return (line[:i], line[i + 1:])":
            return "SReturn"
        raise Unrecognised(f"_split_at_comment: statement {t[:80]}")

    def chain(node, q):
        test = unparse(node.test)
        if test in ("quote is not None", "quote is None"):
            if q is not None:
                raise Unrecognised("_split_at_comment: nested test of quote")
            some, none = (node.body, node.orelse) if test == "quote is not None" else (node.orelse, node.body)
            return f"match quote with\n  | Some q => {action(some, True)}\n  | None => {action(none, False)}\n  end"
        return f"(if {cond(node.test, q)} then {action(node.body, q)} else {action(node.orelse, q)})"

    text = chain(loop.body[1], None)
    if len(seen_hash) != 1:
        raise Unrecognised("_split_at_comment: the comment character is not tested exactly once")
    return text


def _cchar_any(c):
    if not (len(c) == 1 and 32 <= ord(c) < 127):
        raise Unrecognised(f"character literal {c!r}")
    return '""""%char' if c == '"' else f'"{c}"%char'


def _one_char(s, what):
    if not (isinstance(s, str) and len(s) == 1 and 32 < ord(s) < 127):
        raise Unrecognised(f"{what}: expected a single printable character, got {s!r}")
    return s


def _or_chain(node, owner):
    """`owner.A or owner.B or ...` -> [part names]"""
    if not (isinstance(node, ast.BoolOp) and isinstance(node.op, ast.Or)):
        raise Unrecognised(f"expected an or-chain, got {unparse(node)[:80]}")
    out = []
    for v in node.values:
        if not (isinstance(v, ast.Attribute) and unparse(v.value) == owner and v.attr in PARTS):
            raise Unrecognised(f"or-chain member {unparse(v)[:80]}")
        out.append(PARTS[v.attr])
    if len(set(out)) != len(out):
        raise Unrecognised("or-chain names a part twice")
    return out


def _cchar(c):
    return '""""%char' if c == '"' else f'"{c}"%char'


# --- tie audit: sites that used to be tied by the sampled correspondence only -----------------------------------
MONITORED = ["get_attribute_docstring", "_get_attribute_docstring", "_contains_field_definition",
             "_line_contains_definition_for", "_is_empty", "_is_comment", "_get_comment_at_line",
             "_get_inline_comment_at_line", "_split_at_comment", "_get_comment_ending_at_line",
             "_get_docstring_starting_at_line"]


def _decorators(t):
    """(cached?, maxsize): `_get_attribute_docstring` is wrapped in functools.lru_cache(N) or not at all; no other
    scanner function carries a decorator (the shape comparison above does not look at decorators)."""
    cached, size = False, 0
    for name in MONITORED:
        decs = [unparse(d) for d in find_def(t, name).decorator_list]
        if name == "_get_attribute_docstring" and len(decs) == 1:
            d = find_def(t, name).decorator_list[0]
            if (isinstance(d, ast.Call) and unparse(d.func) == "functools.lru_cache" and len(d.args) == 1 and not d.keywords
                    and isinstance(d.args[0], ast.Constant) and isinstance(d.args[0].value, int) and d.args[0].value >= 64):
                cached, size = True, d.args[0].value
                continue
        if decs:
            raise Unrecognised(f"{name}: decorators {decs}")
    if len([n for n in t.body if isinstance(n, (ast.FunctionDef, ast.AsyncFunctionDef)) and n.name in MONITORED]) != len(MONITORED):
        raise Unrecognised("a scanner function is defined twice (or not at module level)")
    return cached, size


ORACLE_WRAPPERS = {"dp_parse": "dp.parse", "inspect_getsource": "inspect.getsource", "inspect_getdoc": "inspect.getdoc"}


def _oracles(t):
    """the third-party / stdlib functions the scanner is fed by (the correspondence run calls exactly these)"""
    from .pyast import module_assign
    out = []
    for name, target in ORACLE_WRAPPERS.items():
        v = module_assign(t, name)
        if not (isinstance(v, ast.Call) and len(v.args) == 1 and not v.keywords and unparse(v.args[0]) == target
                and isinstance(v.func, ast.Call) and unparse(v.func.func) == "functools.lru_cache"):
            raise Unrecognised(f"{name} = {unparse(v)[:80]}")
        out.append((name, target))
    imports = [unparse(n) for n in t.body if isinstance(n, (ast.Import, ast.ImportFrom))]
    for need in ("import functools", "import inspect", "import docstring_parser as dp"):
        if need not in imports:
            raise Unrecognised(f"docstring.py: `{need}` missing")
    for n in ast.walk(t):
        if isinstance(n, (ast.FunctionDef, ast.ClassDef)) and n.name in ("dp", "inspect", "functools") + tuple(ORACLE_WRAPPERS):
            raise Unrecognised(f"docstring.py: {n.name} re-defined")
    return out


def _wrapper_init(fw):
    """FieldWrapper.__init__: the docstring is fetched inside try/except (SystemExit, Exception) with the EMPTY
    AttributeDocString as fall-back; `_help` starts as None and is assigned nowhere else but in the help property."""
    init = [n for n in fw.body if isinstance(n, ast.FunctionDef) and n.name == "__init__"]
    if len(init) != 1:
        raise Unrecognised("FieldWrapper.__init__")
    tries = [n for n in init[0].body if isinstance(n, ast.Try) and "get_attribute_docstring" in unparse(n)]
    if len(tries) != 1:
        raise Unrecognised("FieldWrapper.__init__: try around get_attribute_docstring")
    tr = tries[0]
    if ([unparse(x) for x in tr.body] != ["self._docstring = docstring.get_attribute_docstring(self.parent.dataclass, self.field.name)"]
            or tr.orelse or tr.finalbody or len(tr.handlers) != 1):
        raise Unrecognised("FieldWrapper.__init__: body of the try")
    h = tr.handlers[0]
    hb = [unparse(x) for x in h.body if not is_logger_call(x)]
    if unparse(h.type) != "(SystemExit, Exception)" or hb != ["self._docstring = docstring.AttributeDocString()"]:
        raise Unrecognised("FieldWrapper.__init__: fall-back of the try")
    writes = {}
    for fn in [n for n in fw.body if isinstance(n, ast.FunctionDef)]:
        for n in ast.walk(fn):
            tg = []
            if isinstance(n, ast.Assign):
                tg = n.targets
            elif isinstance(n, (ast.AnnAssign, ast.AugAssign)):
                tg = [n.target]
            for x in tg:
                if unparse(x) in ("self._help", "self._docstring"):
                    writes.setdefault(unparse(x), []).append(fn.name)
    if sorted(writes.get("self._help", [])) != ["__init__", "help", "help", "help"]:
        raise Unrecognised(f"FieldWrapper: writes to self._help in {writes.get('self._help')}")
    if writes.get("self._docstring") != ["__init__", "__init__"]:
        raise Unrecognised(f"FieldWrapper: writes to self._docstring in {writes.get('self._docstring')}")
    h0 = [n for n in init[0].body if isinstance(n, ast.AnnAssign) and unparse(n.target) == "self._help"]
    if len(h0) != 1 or unparse(h0[0].value) != "None":
        raise Unrecognised("FieldWrapper.__init__: initial _help")
    par = [n for n in fw.body if isinstance(n, ast.FunctionDef) and n.name == "parent"]
    if len(par) != 1 or [unparse(d) for d in par[0].decorator_list] != ["property"] or \
            [unparse(x) for x in clean(par[0].body)] != ["return self._parent"]:
        raise Unrecognised("FieldWrapper.parent")
    if "self._parent: Any = parent" not in [unparse(x) for x in init[0].body]:
        raise Unrecognised("FieldWrapper.__init__: self._parent")


def _action_help(fw, hf):
    """FieldWrapper.get_arg_options: what becomes the `help=` of the argparse action.
    -> (table rows [(test, value)], token)"""
    fn = [n for n in fw.body if isinstance(n, ast.FunctionDef) and n.name == "get_arg_options"]
    if len(fn) != 1:
        raise Unrecognised("FieldWrapper.get_arg_options")
    def touches_help(n):
        if isinstance(n, (ast.Assign, ast.AugAssign, ast.AnnAssign, ast.Delete)):
            return "_arg_options['help']" in unparse(n)
        if isinstance(n, ast.Call) and unparse(n.func) in ("_arg_options.pop", "_arg_options.setdefault"):
            return bool(n.args) and unparse(n.args[0]) == "'help'"
        return isinstance(n, ast.Call) and unparse(n.func) in ("_arg_options.update", "_arg_options.clear")
    sets = [n for n in ast.walk(fn[0]) if touches_help(n)]
    chains = [n for n in fn[0].body if isinstance(n, ast.If) and "_arg_options['help']" in unparse(n)]
    if len(chains) != 1:
        raise Unrecognised("get_arg_options: the if-chain that sets help")
    from .pyast import if_chain
    arms, els = if_chain(chains[0])
    if els:
        raise Unrecognised("get_arg_options: else arm of the help chain")
    rows = []
    tests = {"self.help": "AHasHelp", "self.default is not None": "ADefaultNotNone"}
    vals = {"self.help": "AVHelp", "TEMPORARY_TOKEN": "AVToken"}
    for test, body in arms:
        if len(body) != 1 or not isinstance(body[0], ast.Assign) or unparse(body[0].targets[0]) != "_arg_options['help']":
            raise Unrecognised("get_arg_options: arm of the help chain")
        tk, vk = tests.get(unparse(test)), vals.get(unparse(body[0].value))
        if tk is None or vk is None:
            raise Unrecognised(f"get_arg_options: help arm {unparse(test)} -> {unparse(body[0].value)}")
        rows.append(f"({tk}, {vk})")
    if len(sets) != len(arms):
        raise Unrecognised("get_arg_options: help is also set/removed outside the chain")
    from .pyast import module_assign
    token = const(module_assign(hf, "TEMPORARY_TOKEN"), str)
    imp = [unparse(n) for n in ast.walk(parse_cache["fwt"]) if isinstance(n, ast.ImportFrom)]
    if "from simple_parsing.help_formatter import TEMPORARY_TOKEN" not in imp:
        raise Unrecognised("field_wrapper.py: import of TEMPORARY_TOKEN")
    return rows, token


def _custom_override(fw):
    """FieldWrapper.arg_options: the generated options are overlaid with custom_arg_options (= metadata['custom_args'])"""
    fn = [n for n in fw.body if isinstance(n, ast.FunctionDef) and n.name == "arg_options"
          and [unparse(d) for d in n.decorator_list] == ["property"]]
    if len(fn) != 1:
        raise Unrecognised("FieldWrapper.arg_options")
    body = [unparse(x) for x in clean(fn[0].body)]
    want = ["if self._arg_options:\n    return self._arg_options", "options = self.get_arg_options()",
            "options.update(self.custom_arg_options)", "action = options.get('action', 'store')",
            "self._arg_options = only_keep_action_args(options, action)", "return self._arg_options"]
    without = [x for x in want if x != "options.update(self.custom_arg_options)"]
    cao = [n for n in fw.body if isinstance(n, ast.FunctionDef) and n.name == "custom_arg_options"]
    if len(cao) != 1 or [unparse(x) for x in clean(cao[0].body)] != ["return self.field.metadata.get('custom_args', {})"]:
        raise Unrecognised("FieldWrapper.custom_arg_options")
    if body == want:
        return True
    if body == without:
        return False
    raise Unrecognised("FieldWrapper.arg_options: shape changed: " + " | ".join(body)[:300])


def _dataclass_wrapper(dwt):
    """DataclassWrapper.__init__: every FieldWrapper is built as field_wrapper_class(field, parent=self, ...), the default
    class is FieldWrapper, and `self.dataclass` is the class given to the wrapper."""
    dw = find_class(dwt, "DataclassWrapper")
    init = [n for n in dw.body if isinstance(n, ast.FunctionDef) and n.name == "__init__"]
    if len(init) != 1:
        raise Unrecognised("DataclassWrapper.__init__")
    d = kw_defaults(init[0])
    if unparse(d.get("field_wrapper_class", ast.Constant(None))) != "FieldWrapper":
        raise Unrecognised("DataclassWrapper: default field_wrapper_class")
    texts = [unparse(x) for x in init[0].body]
    for need in ("self.dataclass = dataclass", "self.field_wrapper_class = field_wrapper_class"):
        if texts.count(need) != 1:
            raise Unrecognised(f"DataclassWrapper.__init__: `{need}`")
    calls = [n for n in ast.walk(init[0]) if isinstance(n, ast.Call) and unparse(n.func) == "self.field_wrapper_class"]
    if not calls:
        raise Unrecognised("DataclassWrapper.__init__: no FieldWrapper is built")
    for c in calls:
        kws = {k.arg: unparse(k.value) for k in c.keywords}
        if [unparse(a) for a in c.args] != ["field"] or kws.get("parent") != "self":
            raise Unrecognised(f"DataclassWrapper.__init__: {unparse(c)[:100]}")
    for fn in [n for n in dw.body if isinstance(n, ast.FunctionDef) and n.name != "__init__"]:
        for n in ast.walk(fn):
            if isinstance(n, (ast.Assign, ast.AnnAssign)) and "self.dataclass" in [unparse(x) for x in (n.targets if isinstance(n, ast.Assign) else [n.target])]:
                raise Unrecognised(f"DataclassWrapper.{fn.name} re-assigns self.dataclass")
    return len(calls)


parse_cache = {}


def emit(repo: str) -> str:
    t = parse(repo, "simple_parsing/docstring.py")
    fwt = parse(repo, "simple_parsing/wrappers/field_wrapper.py")
    parse_cache["fwt"] = fwt
    hf = parse(repo, "simple_parsing/help_formatter.py")
    dwt = parse(repo, "simple_parsing/wrappers/dataclass_wrapper.py")
    cached, cache_size = _decorators(t)
    oracles = _oracles(t)

    # --- literals, each function's shape ---------------------------------------------------------
    def cfd(c):
        h, c1, e1, e2, c2, c3 = c
        return (h, c1, e1) if (c1 == c2 == c3 and e1 == e2) else None
    H, C, E = _check(t, "_contains_field_definition", lambda c: cfd(c) if len(c) == 6 else None)
    _one_char(H, "comment character"); _one_char(C, "colon"); _one_char(E, "equals")
    if len({H, C, E}) != 3:
        raise Unrecognised("the three separator characters are not distinct")
    _check(t, "_line_contains_definition_for", lambda c: True if c == [C] else None)
    _check(t, "_is_empty", lambda c: True if c == [""] else None)
    _check(t, "_is_comment", lambda c: True if c == [H] else None)
    _check(t, "_get_comment_at_line", lambda c: True if c == ["", H, H] else None)
    _check(t, "_get_inline_comment_at_line", lambda c: True if c == [""] else None)
    split_step = _split_step(find_def(t, "_split_at_comment"), H)
    TS, TD = _check(t, "_get_docstring_starting_at_line",
                    lambda c: (c[0], c[1]) if len(c) == 6 and c[2:] == ["", "", "", "\n"] else None)
    if TS != "'''" or TD != '"""':
        # the proofs are about three equal quote characters; any other token is a different scanner
        raise Unrecognised(f"triple-quote tokens changed: {TS!r} {TD!r}")
    # the upward walk: three recognised shapes -
    #   (quote-line test only) | (quote-line test + code-line test) | (code-line test only, commit aafa06c)
    wfn = find_def(t, "_get_comment_ending_at_line")
    wtext, wconsts = skeleton(wfn)
    quote_ok = len(wconsts) == 3 and sorted(wconsts[:2]) == sorted([TS, TD]) and wconsts[2] == "\n"
    w_old, w_both = EXPECT["_get_comment_ending_at_line"], _repaired("_get_comment_ending_at_line")
    quote_test = "        if S0 in line_str or S1 in line_str:\n            break\n"
    assert w_both.count(quote_test) == 1
    w_code_only = w_both.replace(quote_test, "").replace("S2.join(lines)", "S0.join(lines)")
    if wtext == w_old and quote_ok:
        fix_walk, walk_quote = False, True
    elif wtext == w_both and quote_ok:
        fix_walk, walk_quote = True, True
    elif wtext == w_code_only and wconsts == ["\n"]:
        fix_walk, walk_quote = True, False
    else:
        import difflib
        d = [l for l in difflib.unified_diff(w_code_only.splitlines(), wtext.splitlines(), lineterm="", n=0)
             if not l.startswith(("---", "+++", "@@"))]
        raise Unrecognised("_get_comment_ending_at_line: shape changed: " + " | ".join(d)[:400] + f" literals {wconsts!r}")
    _, fix_entry = _check(t, "_get_attribute_docstring", lambda c: True if c == ["", "", "\n"] else None,
                          repairable=True)

    # --- get_attribute_docstring: accumulation rule ----------------------------------------------
    g = copy.deepcopy(find_def(t, "get_attribute_docstring"))
    loops = [n for n in g.body if isinstance(n, ast.For)]
    if len(loops) != 1:
        raise Unrecognised("get_attribute_docstring: for loop over the MRO")
    ifs = [n for n in loops[0].body if isinstance(n, ast.If) and n.orelse]
    if len(ifs) != 1:
        raise Unrecognised("get_attribute_docstring: if/else inside the loop")
    acc = []
    for s in ifs[0].orelse:
        if isinstance(s, ast.Expr) and isinstance(s.value, ast.Constant):
            continue
        if not (isinstance(s, ast.Assign) and len(s.targets) == 1 and isinstance(s.targets[0], ast.Attribute)
                and unparse(s.targets[0].value) == "created_docstring" and s.targets[0].attr in PARTS):
            raise Unrecognised(f"accumulation statement {unparse(s)[:100]}")
        p = s.targets[0].attr
        if unparse(s.value) != f"created_docstring.{p} or attribute_docstring.{p}":
            raise Unrecognised(f"accumulation of {p}: {unparse(s.value)[:100]}")
        acc.append(PARTS[p])
    if len(set(acc)) != len(acc):
        raise Unrecognised("a part is accumulated twice")
    ifs[0].orelse = [ast.Expr(ast.Name(id="ACCUMULATE", ctx=ast.Load()))]
    text, consts = skeleton(g)
    fix_alias = None
    if text == EXPECT_GET:
        fix_alias = False
    for alt in _ALIAS_NEW:
        if text == EXPECT_GET.replace(_ALIAS_OLD, alt):
            fix_alias = True
            # `replace` must be dataclasses.replace
            imported = any(isinstance(n, ast.ImportFrom) and n.module == "dataclasses" and n.level == 0
                           and any(a.name == "replace" and a.asname is None for a in n.names) for n in t.body)
            whole = any(isinstance(n, ast.Import) and any(a.name == "dataclasses" and a.asname is None for a in n.names)
                        for n in t.body)
            if not (whole if "dataclasses." in alt else imported):
                raise Unrecognised("get_attribute_docstring: `replace` is not dataclasses.replace")
            rebound = [n for n in ast.walk(t) if isinstance(n, (ast.FunctionDef, ast.ClassDef)) and n.name in ("replace", "dataclasses")]
            if rebound:
                raise Unrecognised("get_attribute_docstring: `replace`/`dataclasses` is re-defined in the module")
    if fix_alias is None or consts:
        raise Unrecognised("get_attribute_docstring: shape changed")
    d = kw_defaults(find_def(t, "get_attribute_docstring"))
    if unparse(d.get("accumulate_from_bases", ast.Constant(None))) != "True":
        raise Unrecognised("default of accumulate_from_bases")

    # --- AttributeDocString: field order (positional construction) and help_string ---------------
    ads = find_class(t, "AttributeDocString")
    names = [n.target.id for n in ads.body if isinstance(n, ast.AnnAssign) and isinstance(n.target, ast.Name)]
    if names != ["comment_above", "comment_inline", "docstring_below", "desc_from_cls_docstring"]:
        raise Unrecognised(f"AttributeDocString fields {names}")
    for n in ads.body:
        if isinstance(n, ast.AnnAssign) and (n.value is None or unparse(n.value) != "''"):
            raise Unrecognised("AttributeDocString field default")
    hs = find_def(t, "help_string", cls="AttributeDocString")
    body = [s for s in hs.body if not (isinstance(s, ast.Expr) and isinstance(s.value, ast.Constant))]
    if len(body) != 1 or not isinstance(body[0], ast.Return):
        raise Unrecognised("AttributeDocString.help_string body")
    hs_chain = _or_chain(body[0].value, "self")

    # --- FieldWrapper.help -----------------------------------------------------------------------
    fw = find_class(fwt, "FieldWrapper")
    getters = [n for n in fw.body if isinstance(n, ast.FunctionDef) and n.name == "help"
               and [unparse(x) for x in n.decorator_list] == ["property"]]
    if len(getters) != 1:
        raise Unrecognised("FieldWrapper.help property")
    h = copy.deepcopy(getters[0])
    assigns = [s for s in h.body if isinstance(s, ast.Assign) and unparse(s.targets[0]) == "self._help"
               and isinstance(s.value, ast.BoolOp)]
    if len(assigns) != 1:
        raise Unrecognised("FieldWrapper.help: or-chain assignment")
    help_chain = _or_chain(assigns[0].value, "self._docstring")
    assigns[0].value = ast.Name(id="CHAIN", ctx=ast.Load())
    text, consts = skeleton(h)
    if text != EXPECT_HELP or consts != ["help", "help", ""]:
        raise Unrecognised("FieldWrapper.help: statements around the or-chain changed")
    init = find_def(fwt, "__init__", cls="FieldWrapper")
    calls = [n for n in ast.walk(init) if isinstance(n, ast.Call) and unparse(n.func) == "docstring.get_attribute_docstring"]
    if len(calls) != 1 or [unparse(a) for a in calls[0].args] != ["self.parent.dataclass", "self.field.name"] or calls[0].keywords:
        raise Unrecognised("FieldWrapper.__init__: call of get_attribute_docstring")

    _wrapper_init(fw)
    ah_rows, token = _action_help(fw, hf)
    n_fw_calls = _dataclass_wrapper(dwt)
    custom_overrides = _custom_override(fw)
    hs_decs = [unparse(x) for x in hs.decorator_list]
    if hs_decs != ["property"]:
        raise Unrecognised(f"AttributeDocString.help_string decorators {hs_decs}")

    def plist(ps):
        return "[" + "; ".join(ps) + "]"
    return (
        "From SPV Require Import Base.Str Model.DocScan.\nOpen Scope string_scope.\n"
        f"Definition HASH : ascii := {_cchar(H)}.\n"
        f"Definition COLON : ascii := {_cchar(C)}.\n"
        f"Definition EQUALS : ascii := {_cchar(E)}.\n"
        f"Definition TRIPLE_S : string := {cstr(TS)}.\n"
        f"Definition TRIPLE_D : string := {cstr(TD)}.\n"
        f"Definition ACC_PARTS : list part := {plist(acc)}.\n"
        f"Definition HELP_CHAIN : list part := {plist(help_chain)}.\n"
        f"Definition HELP_STRING_CHAIN : list part := {plist(hs_chain)}.\n"
        "(* repairs present in the source (false = the shape before the repair) *)\n"
        f"Definition FIX_WALK : bool := {'true' if fix_walk else 'false'}.   (* comment walk stops at code lines *)\n"
        f"Definition walk_stops_at_quote_lines_gen : bool := {'true' if walk_quote else 'false'}.   (* ... at any line with a triple-quote token (comment lines included) *)\n"
        f"Definition FIX_ENTRY : bool := {'true' if fix_entry else 'false'}.  (* class-docstring entry of a non-declaring class kept *)\n"
        f"Definition FIX_ALIAS : bool := {'true' if fix_alias else 'false'}.  (* the cached AttributeDocString is copied, not aliased *)\n"
        "(* tie audit: the lru_cache on _get_attribute_docstring; the oracles the scanner is fed by; the help= of the action *)\n"
        f"Definition CACHED : bool := {'true' if cached else 'false'}.\n"
        f"Definition CACHE_SIZE : nat := {cache_size}.\n"
        "Definition ORACLES : list (string * string) := [" + "; ".join(f"({cstr(a)}, {cstr(b)})" for a, b in oracles) + "].\n"
        f"Definition FIELD_WRAPPER_BUILDS : nat := {n_fw_calls}.  (* each one: field_wrapper_class(field, parent=self, ..) *)\n"
        f"Definition TEMPORARY_TOKEN : string := {cstr(token)}.\n"
        f"Definition ACTION_HELP_TABLE : list (ahtest * ahval) := [{'; '.join(ah_rows)}].\n"
        "Definition action_help_gen := action_help TEMPORARY_TOKEN ACTION_HELP_TABLE.\n"
        f"Definition CUSTOM_OVERRIDES : bool := {'true' if custom_overrides else 'false'}.  (* options.update(custom_arg_options) *)\n"
        "Definition final_help_gen := final_help CUSTOM_OVERRIDES.\n"
        "(* the loop body of _split_at_comment, translated statement by statement *)\n"
        f"Definition split_step_gen (quote : option ascii) (char : ascii) : sstep :=\n  {split_step}.\n"
        "(* the model instantiated with the regenerated facts *)\n"
        "Definition contains_def_gen := contains_def HASH COLON EQUALS.\n"
        "Definition view_gen := view HASH COLON EQUALS TRIPLE_S TRIPLE_D split_step_gen.\n"
        "Definition scan_lines_gen := scan_lines HASH COLON EQUALS TRIPLE_S TRIPLE_D split_step_gen FIX_WALK walk_stops_at_quote_lines_gen.\n"
        "Definition scan_class_gen := scan_class HASH COLON EQUALS TRIPLE_S TRIPLE_D split_step_gen FIX_WALK walk_stops_at_quote_lines_gen FIX_ENTRY.\n"
        "Definition merge_gen := merge ACC_PARTS.\n"
        "Definition acc_pure_gen := acc_pure ACC_PARTS.\n"
        "Definition get_doc_gen := get_doc ACC_PARTS FIX_ALIAS CACHED.\n"
        "Definition run_queries_gen := run_queries ACC_PARTS FIX_ALIAS CACHED.\n"
        "Definition help_gen := help_of HELP_CHAIN.\n"
    )
