"""Facts for the attribute-docstring scanner (simple_parsing/docstring.py) and the help precedence.

Monitored, fail closed:
  * the literals of `_contains_field_definition` ('#', ':', '='), of `_is_comment` / `_get_comment_at_line` /
    `_get_inline_comment_at_line` ('#'), the triple-quote tokens of `_get_docstring_starting_at_line` and of the upward
    walk `_get_comment_ending_at_line`, the join separators;
  * the SHAPE of every scanner function: each function body, with string literals replaced by placeholders and
    docstrings / logger calls removed, must be textually equal (ast.unparse) to the shape the Gallina model
    (coq/Model/DocScan.v) was written from - any other edit raises Unrecognised (the tie is reported broken);
  * the MRO accumulation rule of `get_attribute_docstring` (first class that defines the field, then
    `created.P = created.P or attribute.P` for the listed parts P) -> ACC_PARTS;
  * the or-chains of `AttributeDocString.help_string` and `FieldWrapper.help` -> HELP_STRING_CHAIN / HELP_CHAIN, and
    the statements around the latter (explicit help= first, "" -> None).

  * `_split_at_comment` (the inline comment starts at the first '#' outside a string literal): the frame of its while
    loop is checked and the if/elif chain of the loop body is TRANSLATED into `split_step_gen`;
  * three repaired places (the cache aliasing in get_attribute_docstring, the upward comment walk, the class-docstring
    entry of a class that does not declare the field): the shape before AND after each repair is recognised and a
    boolean fact FIX_ALIAS / FIX_WALK / FIX_ENTRY says which one the source has.

Output: coq/Gen/FactsDoc.v (imports Model.DocScan and instantiates it)."""
from __future__ import annotations

import ast
import copy

from .pyast import Unrecognised, cstr, find_class, find_def, is_logger_call, kw_defaults, parse, unparse

PARTS = {"comment_above": "PAbove", "comment_inline": "PInline", "docstring_below": "PBelow",
         "desc_from_cls_docstring": "PCls"}


class _Skel(ast.NodeTransformer):
    """String literals -> S<i> placeholders (collected in visiting order); f-strings -> FSTR; docstring
    expression statements and logger calls dropped at every nesting level."""

    def __init__(self):
        self.consts = []

    def visit_Constant(self, n):
        if isinstance(n.value, str):
            self.consts.append(n.value)
            return ast.Name(id=f"S{len(self.consts) - 1}", ctx=ast.Load())
        return n

    def visit_JoinedStr(self, n):
        return ast.Name(id="FSTR", ctx=ast.Load())

    def _body(self, body):
        out = []
        for s in body:
            if is_logger_call(s):
                continue
            if isinstance(s, ast.Expr) and isinstance(s.value, ast.Constant) and isinstance(s.value.value, str):
                continue
            out.append(self.visit(s))
        return out or [ast.Pass()]

    def generic_visit(self, node):
        for f in ("body", "orelse", "finalbody"):
            if hasattr(node, f) and isinstance(getattr(node, f), list):
                setattr(node, f, self._body(getattr(node, f)) if getattr(node, f) else [])
        for field, old in ast.iter_fields(node):
            if field in ("body", "orelse", "finalbody") and isinstance(old, list):
                continue
            if isinstance(old, list):
                old[:] = [self.visit(v) if isinstance(v, ast.AST) else v for v in old]
            elif isinstance(old, ast.AST):
                setattr(node, field, self.visit(old))
        return node


def skeleton(fn):
    fn = copy.deepcopy(fn)
    fn.decorator_list = []
    fn.returns = None
    sk = _Skel()
    fn = sk.visit(fn)
    return ast.unparse(ast.fix_missing_locations(fn)) + "\n", sk.consts


EXPECT = {
    '_get_attribute_docstring': (
        'def _get_attribute_docstring(dataclass: type, field_name: str):\n'
        '    try:\n'
        '        source = inspect_getsource(dataclass)\n'
        '    except (TypeError, OSError) as e:\n'
        '        return None\n'
        '    desc_from_cls_docstring = S0\n'
        '    cls_docstring = inspect_getdoc(dataclass)\n'
        '    if cls_docstring:\n'
        '        docstring: Docstring = dp_parse(cls_docstring)\n'
        '        for param in docstring.params:\n'
        '            if param.arg_name == field_name:\n'
        '                desc_from_cls_docstring = param.description or S1\n'
        '    if dataclass.__doc__ and dataclass.__doc__ in source:\n'
        '        source = source.replace(dataclass.__doc__, S2, 1)\n'
        '    code_lines: list[str] = source.splitlines()\n'
        '    start_line_index = 1\n'
        '    while start_line_index < len(code_lines):\n'
        '        if _contains_field_definition(code_lines[start_line_index]):\n'
        '            break\n'
        '        start_line_index += 1\n'
        '    lines_with_field_defs = [(index, line) for index, line in enumerate(code_lines) if _contains_field_definition(line)]\n'
        '    for i, line in lines_with_field_defs:\n'
        '        if _line_contains_definition_for(line, field_name):\n'
        '            comment_above = _get_comment_ending_at_line(code_lines, i - 1)\n'
        '            comment_inline = _get_inline_comment_at_line(code_lines, i)\n'
        '            docstring_below = _get_docstring_starting_at_line(code_lines, i + 1)\n'
        '            return AttributeDocString(comment_above, comment_inline, docstring_below, desc_from_cls_docstring=desc_from_cls_docstring)\n'
        '    return None\n'
    ),
    '_contains_field_definition': (
        'def _contains_field_definition(line: str):\n'
        '    line, _, _ = line.partition(S0)\n'
        '    if S1 not in line:\n'
        '        return False\n'
        '    if S3 in line:\n'
        '        attribute_and_type, _, _ = line.partition(S2)\n'
        '    else:\n'
        '        attribute_and_type = line\n'
        '    field_name, _, type = attribute_and_type.partition(S4)\n'
        '    field_name = field_name.strip()\n'
        '    if S5 in type:\n'
        '        return False\n'
        '    if not field_name:\n'
        '        return False\n'
        '    return field_name.isidentifier()\n'
    ),
    '_line_contains_definition_for': (
        'def _line_contains_definition_for(line: str, field_name: str):\n'
        '    line = line.strip()\n'
        '    if not _contains_field_definition(line):\n'
        '        return False\n'
        '    attribute, _, type_and_value_assignment = line.partition(S0)\n'
        '    attribute = attribute.strip()\n'
        '    return attribute.isidentifier() and attribute == field_name\n'
    ),
    '_is_empty': (
        'def _is_empty(line_str: str):\n'
        '    return line_str.strip() == S0\n'
    ),
    '_is_comment': (
        'def _is_comment(line_str: str):\n'
        '    return line_str.strip().startswith(S0)\n'
    ),
    '_get_comment_at_line': (
        'def _get_comment_at_line(code_lines: list[str], line: int):\n'
        '    line_str = code_lines[line]\n'
        '    assert not _contains_field_definition(line_str)\n'
        '    if S1 not in line_str:\n'
        '        return S0\n'
        '    parts = line_str.split(S2, maxsplit=1)\n'
        '    comment = parts[1].strip()\n'
        '    return comment\n'
    ),
    '_get_inline_comment_at_line': (
        'def _get_inline_comment_at_line(code_lines: list[str], line: int):\n'
        '    assert 0 <= line < len(code_lines)\n'
        '    assert _contains_field_definition(code_lines[line])\n'
        '    line_str = code_lines[line]\n'
        '    _, comment = _split_at_comment(line_str)\n'
        '    if comment is None:\n'
        '        return S0\n'
        '    return comment.strip()\n'
    ),
    '_get_comment_ending_at_line': (
        'def _get_comment_ending_at_line(code_lines: list[str], line: int):\n'
        '    start_line = line\n'
        '    end_line = line\n'
        '    while start_line > 0:\n'
        '        line_str = code_lines[start_line]\n'
        '        if _contains_field_definition(line_str):\n'
        '            break\n'
        '        if S0 in line_str or S1 in line_str:\n'
        '            break\n'
        '        start_line -= 1\n'
        '    start_line += 1\n'
        '    lines = []\n'
        '    for i in range(start_line, end_line + 1):\n'
        '        if _is_empty(code_lines[i]):\n'
        '            continue\n'
        '        assert not _contains_field_definition(code_lines[i])\n'
        '        comment = _get_comment_at_line(code_lines, i)\n'
        '        lines.append(comment)\n'
        '    return S2.join(lines).strip()\n'
    ),
    '_get_docstring_starting_at_line': (
        'def _get_docstring_starting_at_line(code_lines: list[str], line: int):\n'
        '    i = line\n'
        '    token: str | None = None\n'
        '    triple_single = S0\n'
        '    triple_double = S1\n'
        '    if line >= len(code_lines):\n'
        '        return S2\n'
        '    docstring_contents: list[str] = []\n'
        '    while i < len(code_lines):\n'
        '        line_str = code_lines[i]\n'
        '        if token is None:\n'
        '            if _is_empty(line_str):\n'
        '                i += 1\n'
        '                continue\n'
        '            elif _contains_field_definition(line_str) or _is_comment(line_str):\n'
        '                return S3\n'
        '            elif triple_single in line_str and triple_double in line_str:\n'
        '                triple_single_index = line_str.index(triple_single)\n'
        '                triple_double_index = line_str.index(triple_double)\n'
        '                if triple_single_index < triple_double_index:\n'
        '                    token = triple_single\n'
        '                else:\n'
        '                    token = triple_double\n'
        '            elif triple_double in line_str:\n'
        '                token = triple_double\n'
        '            elif triple_single in line_str:\n'
        '                token = triple_single\n'
        '            else:\n'
        '                return S4\n'
        '            parts = line_str.split(token, maxsplit=2)\n'
        '            if len(parts) == 3:\n'
        '                between_tokens = parts[1].strip()\n'
        '                docstring_contents.append(between_tokens)\n'
        '                break\n'
        '            elif len(parts) == 2:\n'
        '                after_token = parts[1].strip()\n'
        '                docstring_contents.append(after_token)\n'
        '        elif token in line_str:\n'
        '            before = line_str.split(token, maxsplit=1)[0]\n'
        '            docstring_contents.append(before.strip())\n'
        '            break\n'
        '        else:\n'
        '            docstring_contents.append(line_str.strip())\n'
        '        i += 1\n'
        '    return S5.join(docstring_contents)\n'
    ),
}

EXPECT_GET = (
    'def get_attribute_docstring(dataclass: type, field_name: str, accumulate_from_bases: bool=True):\n'
    '    created_docstring: AttributeDocString | None = None\n'
    '    mro = inspect.getmro(dataclass)\n'
    '    assert mro[0] is dataclass\n'
    '    assert mro[-1] is object\n'
    '    mro = mro[:-1]\n'
    '    for base_class in mro:\n'
    '        attribute_docstring = _get_attribute_docstring(base_class, field_name)\n'
    '        if not attribute_docstring:\n'
    '            continue\n'
    '        if not created_docstring:\n'
    '            created_docstring = attribute_docstring\n'
    '            if not accumulate_from_bases:\n'
    '                return created_docstring\n'
    '        else:\n'
    '            ACCUMULATE\n'
    '    if not created_docstring:\n'
    '        return AttributeDocString()\n'
    '    return created_docstring\n'
)

EXPECT_HELP = (
    'def help(self):\n'
    '    if self._help:\n'
    '        return self._help\n'
    '    if self.field.metadata.get(S1):\n'
    '        return self.field.metadata.get(S0)\n'
    '    self._help = CHAIN\n'
    '    if self._help == S2:\n'
    '        self._help = None\n'
    '    return self._help\n'
)


# --- repaired places: the shape before the repair and the shape after it are both recognised; which one is
# present is emitted as a boolean fact (FIX_WALK / FIX_ENTRY / FIX_ALIAS) that the model takes as an argument ----
_WALK_OLD = "        start_line -= 1\n"
_WALK_NEW = ("        if not (_is_empty(line_str) or _is_comment(line_str)):\n"
             "            break\n"
             "        start_line -= 1\n")
_ENTRY_OLD = "    return None\n"
_ENTRY_NEW = ("    if desc_from_cls_docstring:\n"
              "        return AttributeDocString(desc_from_cls_docstring=desc_from_cls_docstring)\n"
              "    return None\n")
_ALIAS_OLD = "            created_docstring = attribute_docstring\n"
_ALIAS_NEW = ["            created_docstring = replace(attribute_docstring)\n",
              "            created_docstring = dataclasses.replace(attribute_docstring)\n"]


def _repaired(name):
    """the post-repair shape of EXPECT[name]"""
    base = EXPECT[name]
    if name == "_get_comment_ending_at_line":
        assert base.count(_WALK_OLD) == 1
        return base.replace(_WALK_OLD, _WALK_NEW)
    if name == "_get_attribute_docstring":
        assert base.endswith(_ENTRY_OLD)
        return base[: -len(_ENTRY_OLD)] + _ENTRY_NEW
    return None


def _check(tree, name, consts_ok, cls=None, repairable=False):
    """-> consts_ok(consts), or (that, repaired: bool) for a repairable place"""
    fn = find_def(tree, name, cls=cls)
    text, consts = skeleton(fn)
    if repairable and text == _repaired(name):
        r = consts_ok(consts)
        if r is None:
            raise Unrecognised(f"{name}: literals {consts!r} not in the expected pattern")
        return r, True
    if text != EXPECT[name]:
        import difflib
        d = [l for l in difflib.unified_diff(EXPECT[name].splitlines(), text.splitlines(), lineterm="", n=0)
             if not l.startswith(("---", "+++", "@@"))]
        raise Unrecognised(f"{name}: shape changed: " + " | ".join(d)[:400])
    r = consts_ok(consts)
    if r is None:
        raise Unrecognised(f"{name}: literals {consts!r} not in the expected pattern")
    return (r, False) if repairable else r


# --- _split_at_comment: the frame of the loop is checked, the decision chain of its body is TRANSLATED ---------
def _split_step(fn, H):
    """-> Gallina text of `split_step_gen (quote : option ascii) (char : ascii) : sstep`"""
    body = [b for b in fn.body if not (isinstance(b, ast.Expr) and isinstance(b.value, ast.Constant))]
    if [a.arg for a in fn.args.args] != ["line"] or len(body) != 4:
        raise Unrecognised("_split_at_comment: signature / number of statements")
    init_q, init_i, loop, ret = body
    if not (isinstance(init_q, (ast.AnnAssign, ast.Assign)) and unparse(init_q).replace("quote: str | None = ", "quote = ") == "quote = None"):
        raise Unrecognised("_split_at_comment: initial quote")
    if unparse(init_i) != "i = 0":
        raise Unrecognised("_split_at_comment: initial index")
    if not (isinstance(ret, ast.Return) and unparse(ret) == "return (line, None)"):
        raise Unrecognised("_split_at_comment: final return")
    if not (isinstance(loop, ast.While) and unparse(loop.test) == "i < len(line)" and not loop.orelse and len(loop.body) == 3
            and unparse(loop.body[0]) == "char = line[i]" and isinstance(loop.body[1], ast.If) and unparse(loop.body[2]) == "i += 1"):
        raise Unrecognised("_split_at_comment: loop frame")
    seen_hash = []

    def cond(n, q):
        if isinstance(n, ast.BoolOp):
            op = " || " if isinstance(n.op, ast.Or) else " && "
            return "(" + op.join(cond(v, q) for v in n.values) + ")"
        if isinstance(n, ast.Compare) and len(n.ops) == 1 and isinstance(n.ops[0], ast.Eq) and unparse(n.left) == "char":
            r = n.comparators[0]
            if isinstance(r, ast.Constant) and isinstance(r.value, str) and len(r.value) == 1:
                if r.value == H:
                    seen_hash.append(1)
                return f"Ascii.eqb char {_cchar_any(r.value)}"
            if isinstance(r, ast.Name) and r.id == "quote" and q:
                return "Ascii.eqb char q"
        raise Unrecognised(f"_split_at_comment: condition {unparse(n)[:80]}")

    def action(stmts, q):
        if not stmts:
            return "SKeep"
        if len(stmts) == 1 and isinstance(stmts[0], ast.If):
            return chain(stmts[0], q)
        if len(stmts) != 1:
            raise Unrecognised("_split_at_comment: arm with several statements")
        t = unparse(stmts[0])
        if t == "i += 1":
            return "SSkipNext"
        if t == "quote = None":
            return "SQuote None"
        if t == "quote = char":
            return "SQuote (Some char)"
        if t == "return (line[:i], line[i + 1:])":
            return "SReturn"
        raise Unrecognised(f"_split_at_comment: statement {t[:80]}")

    def chain(node, q):
        test = unparse(node.test)
        if test in ("quote is not None", "quote is None"):
            if q is not None:
                raise Unrecognised("_split_at_comment: nested test of quote")
            some, none = (node.body, node.orelse) if test == "quote is not None" else (node.orelse, node.body)
            return f"match quote with\n  | Some q => {action(some, True)}\n  | None => {action(none, False)}\n  end"
        return f"(if {cond(node.test, q)} then {action(node.body, q)} else {action(node.orelse, q)})"

    text = chain(loop.body[1], None)
    if len(seen_hash) != 1:
        raise Unrecognised("_split_at_comment: the comment character is not tested exactly once")
    return text


def _cchar_any(c):
    if not (len(c) == 1 and 32 <= ord(c) < 127):
        raise Unrecognised(f"character literal {c!r}")
    return '""""%char' if c == '"' else f'"{c}"%char'


def _one_char(s, what):
    if not (isinstance(s, str) and len(s) == 1 and 32 < ord(s) < 127):
        raise Unrecognised(f"{what}: expected a single printable character, got {s!r}")
    return s


def _or_chain(node, owner):
    """`owner.A or owner.B or ...` -> [part names]"""
    if not (isinstance(node, ast.BoolOp) and isinstance(node.op, ast.Or)):
        raise Unrecognised(f"expected an or-chain, got {unparse(node)[:80]}")
    out = []
    for v in node.values:
        if not (isinstance(v, ast.Attribute) and unparse(v.value) == owner and v.attr in PARTS):
            raise Unrecognised(f"or-chain member {unparse(v)[:80]}")
        out.append(PARTS[v.attr])
    if len(set(out)) != len(out):
        raise Unrecognised("or-chain names a part twice")
    return out


def _cchar(c):
    return '""""%char' if c == '"' else f'"{c}"%char'


def emit(repo: str) -> str:
    t = parse(repo, "simple_parsing/docstring.py")
    fwt = parse(repo, "simple_parsing/wrappers/field_wrapper.py")

    # --- literals, each function's shape ---------------------------------------------------------
    def cfd(c):
        h, c1, e1, e2, c2, c3 = c
        return (h, c1, e1) if (c1 == c2 == c3 and e1 == e2) else None
    H, C, E = _check(t, "_contains_field_definition", lambda c: cfd(c) if len(c) == 6 else None)
    _one_char(H, "comment character"); _one_char(C, "colon"); _one_char(E, "equals")
    if len({H, C, E}) != 3:
        raise Unrecognised("the three separator characters are not distinct")
    _check(t, "_line_contains_definition_for", lambda c: True if c == [C] else None)
    _check(t, "_is_empty", lambda c: True if c == [""] else None)
    _check(t, "_is_comment", lambda c: True if c == [H] else None)
    _check(t, "_get_comment_at_line", lambda c: True if c == ["", H, H] else None)
    _check(t, "_get_inline_comment_at_line", lambda c: True if c == [""] else None)
    split_step = _split_step(find_def(t, "_split_at_comment"), H)
    TS, TD = _check(t, "_get_docstring_starting_at_line",
                    lambda c: (c[0], c[1]) if len(c) == 6 and c[2:] == ["", "", "", "\n"] else None)
    if TS != "'''" or TD != '"""':
        # the proofs are about three equal quote characters; any other token is a different scanner
        raise Unrecognised(f"triple-quote tokens changed: {TS!r} {TD!r}")
    _, fix_walk = _check(t, "_get_comment_ending_at_line",
                         lambda c: True if len(c) == 3 and sorted(c[:2]) == sorted([TS, TD]) and c[2] == "\n" else None,
                         repairable=True)
    _, fix_entry = _check(t, "_get_attribute_docstring", lambda c: True if c == ["", "", "\n"] else None,
                          repairable=True)

    # --- get_attribute_docstring: accumulation rule ----------------------------------------------
    g = copy.deepcopy(find_def(t, "get_attribute_docstring"))
    loops = [n for n in g.body if isinstance(n, ast.For)]
    if len(loops) != 1:
        raise Unrecognised("get_attribute_docstring: for loop over the MRO")
    ifs = [n for n in loops[0].body if isinstance(n, ast.If) and n.orelse]
    if len(ifs) != 1:
        raise Unrecognised("get_attribute_docstring: if/else inside the loop")
    acc = []
    for s in ifs[0].orelse:
        if isinstance(s, ast.Expr) and isinstance(s.value, ast.Constant):
            continue
        if not (isinstance(s, ast.Assign) and len(s.targets) == 1 and isinstance(s.targets[0], ast.Attribute)
                and unparse(s.targets[0].value) == "created_docstring" and s.targets[0].attr in PARTS):
            raise Unrecognised(f"accumulation statement {unparse(s)[:100]}")
        p = s.targets[0].attr
        if unparse(s.value) != f"created_docstring.{p} or attribute_docstring.{p}":
            raise Unrecognised(f"accumulation of {p}: {unparse(s.value)[:100]}")
        acc.append(PARTS[p])
    if len(set(acc)) != len(acc):
        raise Unrecognised("a part is accumulated twice")
    ifs[0].orelse = [ast.Expr(ast.Name(id="ACCUMULATE", ctx=ast.Load()))]
    text, consts = skeleton(g)
    fix_alias = None
    if text == EXPECT_GET:
        fix_alias = False
    for alt in _ALIAS_NEW:
        if text == EXPECT_GET.replace(_ALIAS_OLD, alt):
            fix_alias = True
            # `replace` must be dataclasses.replace
            imported = any(isinstance(n, ast.ImportFrom) and n.module == "dataclasses" and n.level == 0
                           and any(a.name == "replace" and a.asname is None for a in n.names) for n in t.body)
            whole = any(isinstance(n, ast.Import) and any(a.name == "dataclasses" and a.asname is None for a in n.names)
                        for n in t.body)
            if not (whole if "dataclasses." in alt else imported):
                raise Unrecognised("get_attribute_docstring: `replace` is not dataclasses.replace")
            rebound = [n for n in ast.walk(t) if isinstance(n, (ast.FunctionDef, ast.ClassDef)) and n.name in ("replace", "dataclasses")]
            if rebound:
                raise Unrecognised("get_attribute_docstring: `replace`/`dataclasses` is re-defined in the module")
    if fix_alias is None or consts:
        raise Unrecognised("get_attribute_docstring: shape changed")
    d = kw_defaults(find_def(t, "get_attribute_docstring"))
    if unparse(d.get("accumulate_from_bases", ast.Constant(None))) != "True":
        raise Unrecognised("default of accumulate_from_bases")

    # --- AttributeDocString: field order (positional construction) and help_string ---------------
    ads = find_class(t, "AttributeDocString")
    names = [n.target.id for n in ads.body if isinstance(n, ast.AnnAssign) and isinstance(n.target, ast.Name)]
    if names != ["comment_above", "comment_inline", "docstring_below", "desc_from_cls_docstring"]:
        raise Unrecognised(f"AttributeDocString fields {names}")
    for n in ads.body:
        if isinstance(n, ast.AnnAssign) and (n.value is None or unparse(n.value) != "''"):
            raise Unrecognised("AttributeDocString field default")
    hs = find_def(t, "help_string", cls="AttributeDocString")
    body = [s for s in hs.body if not (isinstance(s, ast.Expr) and isinstance(s.value, ast.Constant))]
    if len(body) != 1 or not isinstance(body[0], ast.Return):
        raise Unrecognised("AttributeDocString.help_string body")
    hs_chain = _or_chain(body[0].value, "self")

    # --- FieldWrapper.help -----------------------------------------------------------------------
    fw = find_class(fwt, "FieldWrapper")
    getters = [n for n in fw.body if isinstance(n, ast.FunctionDef) and n.name == "help"
               and [unparse(x) for x in n.decorator_list] == ["property"]]
    if len(getters) != 1:
        raise Unrecognised("FieldWrapper.help property")
    h = copy.deepcopy(getters[0])
    assigns = [s for s in h.body if isinstance(s, ast.Assign) and unparse(s.targets[0]) == "self._help"
               and isinstance(s.value, ast.BoolOp)]
    if len(assigns) != 1:
        raise Unrecognised("FieldWrapper.help: or-chain assignment")
    help_chain = _or_chain(assigns[0].value, "self._docstring")
    assigns[0].value = ast.Name(id="CHAIN", ctx=ast.Load())
    text, consts = skeleton(h)
    if text != EXPECT_HELP or consts != ["help", "help", ""]:
        raise Unrecognised("FieldWrapper.help: statements around the or-chain changed")
    init = find_def(fwt, "__init__", cls="FieldWrapper")
    calls = [n for n in ast.walk(init) if isinstance(n, ast.Call) and unparse(n.func) == "docstring.get_attribute_docstring"]
    if len(calls) != 1 or [unparse(a) for a in calls[0].args] != ["self.parent.dataclass", "self.field.name"] or calls[0].keywords:
        raise Unrecognised("FieldWrapper.__init__: call of get_attribute_docstring")

    def plist(ps):
        return "[" + "; ".join(ps) + "]"
    return (
        "From SPV Require Import Base.Str Model.DocScan.\nOpen Scope string_scope.\n"
        f"Definition HASH : ascii := {_cchar(H)}.\n"
        f"Definition COLON : ascii := {_cchar(C)}.\n"
        f"Definition EQUALS : ascii := {_cchar(E)}.\n"
        f"Definition TRIPLE_S : string := {cstr(TS)}.\n"
        f"Definition TRIPLE_D : string := {cstr(TD)}.\n"
        f"Definition ACC_PARTS : list part := {plist(acc)}.\n"
        f"Definition HELP_CHAIN : list part := {plist(help_chain)}.\n"
        f"Definition HELP_STRING_CHAIN : list part := {plist(hs_chain)}.\n"
        "(* repairs present in the source (false = the shape before the repair) *)\n"
        f"Definition FIX_WALK : bool := {'true' if fix_walk else 'false'}.   (* comment walk stops at code lines *)\n"
        f"Definition FIX_ENTRY : bool := {'true' if fix_entry else 'false'}.  (* class-docstring entry of a non-declaring class kept *)\n"
        f"Definition FIX_ALIAS : bool := {'true' if fix_alias else 'false'}.  (* the cached AttributeDocString is copied, not aliased *)\n"
        "(* the loop body of _split_at_comment, translated statement by statement *)\n"
        f"Definition split_step_gen (quote : option ascii) (char : ascii) : sstep :=\n  {split_step}.\n"
        "(* the model instantiated with the regenerated facts *)\n"
        "Definition contains_def_gen := contains_def HASH COLON EQUALS.\n"
        "Definition view_gen := view HASH COLON EQUALS TRIPLE_S TRIPLE_D split_step_gen.\n"
        "Definition scan_lines_gen := scan_lines HASH COLON EQUALS TRIPLE_S TRIPLE_D split_step_gen FIX_WALK.\n"
        "Definition scan_class_gen := scan_class HASH COLON EQUALS TRIPLE_S TRIPLE_D split_step_gen FIX_WALK FIX_ENTRY.\n"
        "Definition merge_gen := merge ACC_PARTS.\n"
        "Definition acc_pure_gen := acc_pure ACC_PARTS.\n"
        "Definition get_doc_gen := get_doc ACC_PARTS FIX_ALIAS.\n"
        "Definition run_queries_gen := run_queries ACC_PARTS FIX_ALIAS.\n"
        "Definition help_gen := help_of HELP_CHAIN.\n"
    )
