"""Facts for loading through a base class (C14), from simple_parsing/helpers/serialization/serializable.py and utils.py:

  * DC_TYPE_KEY
  * from_dict: the rule deriving the default of drop_extra_fields from decode_into_subclasses (and getattr's default),
    the sort key used on the candidate subclasses (number of init fields / of all fields), which fields found in the
    dict are required of a candidate and which of the candidate's fields are looked at (init only / all; both shapes of
    the code are recognised), the comparison of the superset test, which matching candidate is
    returned (first in the sorted list), the drop_extra_fields value passed when re-entering with the chosen subclass
  * the rest of from_dict, and to_dict / get_init_fields / SerializableMixin.__init_subclass__ / utils.all_subclasses,
    are compared as cleaned text with the shapes the model was written against (fail closed on any other edit).

Output: coq/Gen/FactsSubclass.v (imports Model.Subclass for the vocabulary and instantiates the model)."""
from __future__ import annotations

import ast
import copy

from .pyast import Unrecognised, const, cstr, find_class, find_def, is_logger_call, module_assign, parse, unparse

SER = "simple_parsing/helpers/serialization/serializable.py"
DEC = "simple_parsing/helpers/serialization/decoding.py"
ENC = "simple_parsing/helpers/serialization/encoding.py"


class _Clean(ast.NodeTransformer):
    """Drop docstrings and logger/warnings calls everywhere (behaviour-neutral); empty bodies become `pass`."""

    def _body(self, body):
        out = []
        for i, s in enumerate(body):
            if i == 0 and isinstance(s, ast.Expr) and isinstance(s.value, ast.Constant) and isinstance(s.value.value, str):
                continue
            if is_logger_call(s):
                continue
            out.append(self.visit(s))
        return out or [ast.Pass()]

    def generic_visit(self, node):
        for f in ("body", "orelse", "finalbody"):
            b = getattr(node, f, None)
            if isinstance(b, list) and b and isinstance(b[0], ast.stmt):
                setattr(node, f, self._body(b))
        if isinstance(node, ast.Try):
            for hnd in node.handlers:
                hnd.body = self._body(hnd.body)
        return node


def _cleaned(fn):
    return _Clean().visit(copy.deepcopy(fn))


FROM_DICT_SKELETON = '''def from_dict(cls: type[DataclassT], d: dict[str, Any], drop_extra_fields: bool | None=None) -> DataclassT:
    if d is None:
        return None
    obj_dict: dict[str, Any] = d.copy()
    init_args: dict[str, Any] = {}
    non_init_args: dict[str, Any] = {}
    if DC_TYPE_KEY in obj_dict:
        target = obj_dict.pop(DC_TYPE_KEY)
        live_dc_type = _locate(target)
        return from_dict(live_dc_type, obj_dict, drop_extra_fields=drop_extra_fields)
    if drop_extra_fields is None:
        drop_extra_fields = __DROP_RULE__
        if cls in {Serializable, FrozenSerializable, SerializableMixin}:
            drop_extra_fields = False
    for field in fields(cls) if is_dataclass(cls) else []:
        name = field.name
        if name not in obj_dict:
            if field.metadata.get('to_dict', True) and field.default is MISSING and (field.default_factory is MISSING):
                pass
            continue
        raw_value = obj_dict.pop(name)
        field_value = decode_field(field, raw_value, containing_dataclass=cls, drop_extra_fields=drop_extra_fields)
        if field.init:
            init_args[name] = field_value
        else:
            non_init_args[name] = field_value
    extra_args = obj_dict
    if extra_args:
        if drop_extra_fields:
            extra_args.clear()
        else:
            derived_classes: list[type[DataclassT]] = []
            for subclass in all_subclasses(cls):
                if subclass is not cls:
                    derived_classes.append(subclass)
            req_init_field_names = __REQUIRED__
            derived_classes.sort(key=__SORT_KEY__)
            for child_class in __CANDIDATES__:
                child_init_field_names = __CANDIDATE_FIELDS__
                if __SUPERSET_TEST__:
                    return from_dict(child_class, d, drop_extra_fields=__CHILD_DROP__)
    init_args.update(extra_args)
    try:
        instance = cls(**init_args)
    except TypeError as e:
        raise __CONSTRUCT_ERROR__(f"Couldn't instantiate class {cls} using init args {init_args.keys()}: {e}")
    for name, value in non_init_args.items():
        setattr(instance, name, value)
    return instance'''

TO_DICT_TEXT = '''def to_dict(dc: DataclassT, dict_factory: type[dict]=dict, recurse: bool=True, save_dc_types: bool=False) -> dict:
    if not is_dataclass(dc):
        raise ValueError('to_dict should only be called on a dataclass instance.')
    d: dict[str, Any] = dict_factory()
    if save_dc_types:
        class_name = dc.__class__.__qualname__
        module = type(dc).__module__
        if '<locals>' in class_name:
            pass
        else:
            d[DC_TYPE_KEY] = module + '.' + class_name
    for f in fields(dc):
        name = f.name
        value = getattr(dc, name)
        include_in_dict = f.metadata.get('to_dict', True)
        if not include_in_dict:
            continue
        custom_encoding_fn = f.metadata.get('encoding_fn')
        if custom_encoding_fn:
            d[name] = custom_encoding_fn(value)
            continue
        encoding_fn = encode
        if is_dataclass(value) and recurse:
            encoded = to_dict(value, dict_factory=dict_factory, recurse=recurse, save_dc_types=save_dc_types)
        else:
            try:
                encoded = encoding_fn(value)
            except Exception as e:
                encoded = value
        d[name] = encoded
    return d'''

GET_INIT_FIELDS_TEXT = '''def get_init_fields(dataclass: type) -> dict[str, Field]:
    result: dict[str, Field] = {}
    for field in fields(dataclass):
        if field.init:
            result[field.name] = field
    return result'''

INIT_SUBCLASS_TEXT = '''def __init_subclass__(cls, decode_into_subclasses: bool | None=None, add_variants: bool=True):
    super().__init_subclass__()
    if decode_into_subclasses is None:
        parents = cls.mro()[1:-1]
        for parent in parents:
            if parent in SerializableMixin.subclasses and parent is not SerializableMixin:
                decode_into_subclasses = parent.decode_into_subclasses
                break
    cls.decode_into_subclasses = decode_into_subclasses or False
    if cls not in SerializableMixin.subclasses:
        SerializableMixin.subclasses.append(cls)
    encode.register(cls, cls.to_dict)
    register_decoding_fn(cls, cls.from_dict)'''

ALL_SUBCLASSES_TEXT = '''def all_subclasses(t: type[T]) -> set[type[T]]:
    immediate_subclasses = t.__subclasses__()
    return set(immediate_subclasses).union(*[all_subclasses(s) for s in immediate_subclasses])'''


def _same_text(what, fn, expected):
    got = unparse(_cleaned(fn))
    if got != expected:
        gl, el = got.splitlines(), expected.splitlines()
        for i, (a, b) in enumerate(zip(gl, el)):
            if a != b:
                raise Unrecognised(f"{what}: line {i + 1} is `{a.strip()[:100]}`, the model was written against `{b.strip()[:100]}`")
        raise Unrecognised(f"{what}: {len(gl)} cleaned lines, the model was written against {len(el)}")


def _drop_rule(value):
    """`not getattr(cls, 'decode_into_subclasses', <bool>)` -> (DropNotDis, bool); without the `not` -> DropDis."""
    rule = "DropDis"
    if isinstance(value, ast.UnaryOp) and isinstance(value.op, ast.Not):
        rule, value = "DropNotDis", value.operand
    if not (isinstance(value, ast.Call) and isinstance(value.func, ast.Name) and value.func.id == "getattr"
            and len(value.args) == 3 and not value.keywords and unparse(value.args[0]) == "cls"
            and isinstance(value.args[1], ast.Constant) and value.args[1].value == "decode_into_subclasses"):
        raise Unrecognised(f"default of drop_extra_fields: {unparse(value)[:100]}")
    absent = const(value.args[2], bool)
    return rule, absent


def _sort_key(call):
    if call.args or [k.arg for k in call.keywords] != ["key"]:
        raise Unrecognised(f"derived_classes.sort arguments: {unparse(call)[:120]}")
    lam = call.keywords[0].value
    if not (isinstance(lam, ast.Lambda) and len(lam.args.args) == 1 and not lam.args.defaults and not lam.args.kwonlyargs
            and lam.args.vararg is None and lam.args.kwarg is None):
        raise Unrecognised(f"sort key: {unparse(lam)[:100]}")
    x = lam.args.args[0].arg
    body = unparse(lam.body)
    if body == f"len(get_init_fields({x}))":
        return "KInitCount"
    if body == f"-len(get_init_fields({x}))":
        return "KNegInitCount"
    if body == f"len(fields({x}))":
        return "KAllCount"
    raise Unrecognised(f"sort key body: {body[:100]}")


REQ_SHAPES = {"set(chain(extra_args, init_args))": "ReqInit",
              "set(chain(extra_args, init_args, non_init_args))": "ReqAll"}
# statements of the candidate loop before the test -> which of the candidate's fields are looked at
CAND_SHAPES = {("child_init_fields: dict[str, Field] = get_init_fields(child_class)",
                "child_init_field_names = set(child_init_fields.keys())"): "FInit",
               ("child_init_field_names = set(get_init_fields(child_class).keys())",): "FInit",
               ("child_init_field_names = {f.name for f in fields(child_class)}",): "FAll"}


def _cmp(test):
    if not (isinstance(test, ast.Compare) and len(test.ops) == 1 and isinstance(test.left, ast.Name)
            and isinstance(test.comparators[0], ast.Name)):
        raise Unrecognised(f"superset test: {unparse(test)[:100]}")
    left, right = test.left.id, test.comparators[0].id
    ops = {ast.GtE: "CGe", ast.Gt: "CGt", ast.Eq: "CEq", ast.LtE: "CLe"}
    flipped = {ast.LtE: "CGe", ast.Lt: "CGt", ast.Eq: "CEq", ast.GtE: "CLe"}
    if (left, right) == ("child_init_field_names", "req_init_field_names"):
        table = ops
    elif (left, right) == ("req_init_field_names", "child_init_field_names"):
        table = flipped
    else:
        raise Unrecognised(f"superset test operands: {unparse(test)[:100]}")
    op = table.get(type(test.ops[0]))
    if op is None:
        raise Unrecognised(f"superset test operator: {unparse(test)[:100]}")
    return op


def _from_dict_facts(fn):
    """Locate the five monitored expressions, read them, blank them out, and compare what is left with the skeleton."""
    fn = _cleaned(fn)
    facts = {}

    def hole(name):
        return ast.Name(id=name, ctx=ast.Load())

    for node in ast.walk(fn):
        # drop_extra_fields = not getattr(cls, "decode_into_subclasses", False)
        if isinstance(node, ast.If) and unparse(node.test) == "drop_extra_fields is None":
            first = node.body[0] if node.body else None
            if not (isinstance(first, ast.Assign) and len(first.targets) == 1 and unparse(first.targets[0]) == "drop_extra_fields"):
                raise Unrecognised("from_dict: first statement under `if drop_extra_fields is None`")
            if "rule" in facts:
                raise Unrecognised("from_dict: two `drop_extra_fields is None` blocks")
            facts["rule"], facts["absent"] = _drop_rule(first.value)
            first.value = hole("__DROP_RULE__")
        # req_init_field_names = set(chain(extra_args, init_args[, non_init_args]))
        if isinstance(node, ast.Assign) and len(node.targets) == 1 and unparse(node.targets[0]) == "req_init_field_names":
            if "rset" in facts:
                raise Unrecognised("from_dict: req_init_field_names assigned twice")
            shape = unparse(node.value)
            if shape not in REQ_SHAPES:
                raise Unrecognised(f"from_dict: required names are `{shape[:120]}`")
            facts["rset"] = REQ_SHAPES[shape]
            node.value = hole("__REQUIRED__")
        # derived_classes.sort(key=...)
        if isinstance(node, ast.Expr) and isinstance(node.value, ast.Call) and unparse(node.value.func) == "derived_classes.sort":
            if "skey" in facts:
                raise Unrecognised("from_dict: derived_classes sorted twice")
            facts["skey"] = _sort_key(node.value)
            node.value.keywords[0].value = hole("__SORT_KEY__")
        # for child_class in derived_classes: ... if <test>: return from_dict(child_class, d, drop_extra_fields=False)
        if isinstance(node, ast.For) and unparse(node.target) == "child_class":
            if "pick" in facts:
                raise Unrecognised("from_dict: two loops over child_class")
            it = unparse(node.iter)
            if it == "derived_classes":
                facts["pick"] = "PickFirst"
            elif it == "reversed(derived_classes)":
                facts["pick"] = "PickLast"
            else:
                raise Unrecognised(f"from_dict: candidates are iterated as `{it[:80]}`")
            node.iter = hole("__CANDIDATES__")
            pre = tuple(unparse(st) for st in node.body if not isinstance(st, ast.If))
            if pre not in CAND_SHAPES or not isinstance(node.body[-1], ast.If):
                raise Unrecognised(f"from_dict: how the candidate's field names are computed: {' ; '.join(pre)[:200]}")
            facts["cset"] = CAND_SHAPES[pre]
            node.body = [ast.Assign(targets=[ast.Name(id="child_init_field_names", ctx=ast.Store())],
                                    value=hole("__CANDIDATE_FIELDS__"), lineno=0), node.body[-1]]
            if node.orelse:
                raise Unrecognised("from_dict: for/else on the candidate loop")
            ifs = [s for s in node.body if isinstance(s, ast.If)]
            if len(ifs) != 1 or ifs[0].orelse or len(ifs[0].body) != 1 or not isinstance(ifs[0].body[0], ast.Return):
                raise Unrecognised("from_dict: the candidate loop is not `if <test>: return ...` (first match)")
            facts["cmp"] = _cmp(ifs[0].test)
            ifs[0].test = hole("__SUPERSET_TEST__")
            ret = ifs[0].body[0].value
            if not (isinstance(ret, ast.Call) and unparse(ret.func) == "from_dict" and [unparse(a) for a in ret.args] == ["child_class", "d"]
                    and [k.arg for k in ret.keywords] in (["drop_extra_fields"], [])):
                raise Unrecognised(f"from_dict: what the candidate loop returns: {unparse(ret)[:120]}")
            if ret.keywords:
                v = ret.keywords[0].value
                if isinstance(v, ast.Constant) and v.value is None:
                    facts["child_drop"] = "None"
                else:
                    facts["child_drop"] = f"(Some {cbool(const(v, bool))})"
                ret.keywords[0].value = hole("__CHILD_DROP__")
            else:
                # the argument is not passed: from_dict re-derives it from the chosen class
                facts["child_drop"] = "None"
                ret.keywords = [ast.keyword(arg="drop_extra_fields", value=hole("__CHILD_DROP__"))]
        # instance = cls(**init_args)  except TypeError: raise <class>(..)
        if isinstance(node, ast.Try) and len(node.body) == 1 and unparse(node.body[0]) == "instance = cls(**init_args)":
            if "cerr" in facts or len(node.handlers) != 1 or unparse(node.handlers[0].type) != "TypeError":
                raise Unrecognised("from_dict: handlers around cls(**init_args)")
            hb = node.handlers[0].body
            if not (len(hb) == 1 and isinstance(hb[0], ast.Raise) and isinstance(hb[0].exc, ast.Call)
                    and isinstance(hb[0].exc.func, ast.Name) and hb[0].cause is None):
                raise Unrecognised("from_dict: what the TypeError handler raises")
            facts["cerr"] = hb[0].exc.func.id
            hb[0].exc.func = hole("__CONSTRUCT_ERROR__")
    for k in ("rule", "absent", "skey", "pick", "cmp", "child_drop", "cset", "rset", "cerr"):
        if k not in facts:
            raise Unrecognised(f"from_dict: could not locate the construct for `{k}`")
    got = unparse(fn)
    if got != FROM_DICT_SKELETON:
        gl, el = got.splitlines(), FROM_DICT_SKELETON.splitlines()
        for i, (a, b) in enumerate(zip(gl, el)):
            if a != b:
                raise Unrecognised(f"from_dict: line {i + 1} is `{a.strip()[:100]}`, the model was written against `{b.strip()[:100]}`")
        raise Unrecognised(f"from_dict: {len(gl)} cleaned lines, the model was written against {len(el)}")
    return facts


def cbool(b):
    return "true" if b else "false"


def copt_bool(v):
    return "None" if v is None else f"(Some {cbool(v)})"


DECODE_FIELD_SKELETON = '''def decode_field(field: Field, raw_value: Any, containing_dataclass: type | None=None, drop_extra_fields: bool | None=None) -> Any:
    name = field.name
    field_type = field.type
    custom_decoding_fn = field.metadata.get('decoding_fn')
    if custom_decoding_fn is not None:
        return custom_decoding_fn(raw_value)
    if isinstance(field_type, str) and containing_dataclass:
        field_type = evaluate_string_annotation(field_type, containing_dataclass)
    decoding_function = get_decoding_fn(field_type)
    _kwargs = dict(category=UnsafeCastingWarning) if sys.version_info >= (3, 11) else {}
    with warnings.catch_warnings(record=True, **_kwargs) as warning_messages:
        __DECODE_CALL__
    for warning_message in warning_messages.copy():
        if not isinstance(warning_message.message, UnsafeCastingWarning):
            warning_messages.remove(warning_message)
    if warning_messages:
        pass
    return decoded_value'''

# how decode_field calls the decoder -> when drop_extra_fields reaches it
DECODE_CALL_SHAPES = {
    ("if is_dataclass_type(field_type) and drop_extra_fields is not None:\n"
     "    decoded_value = decoding_function(raw_value, drop_extra_fields=drop_extra_fields)\n"
     "else:\n"
     "    decoded_value = decoding_function(raw_value)"): "FwdDataclassNotNone",
    "decoded_value = decoding_function(raw_value)": "FwdNever",
}

DECODE_LIST_TEXT = '''def decode_list(t: type[T]) -> Callable[[list[Any]], list[T]]:
    decode_item = get_decoding_fn(t)

    def _decode_list(val: list[Any]) -> list[T]:
        return [decode_item(v__ITEM_FLAG__) for v in val]
    return _decode_list'''

DECODE_DICT_TEXT = '''def decode_dict(K_: type[K], V_: type[V]) -> Callable[[list[tuple[Any, Any]]], dict[K, V]]:
    decode_k = get_decoding_fn(K_)
    decode_v = get_decoding_fn(V_)

    def _decode_dict(val: dict[Any, Any] | list[tuple[Any, Any]]) -> dict[K, V]:
        result: dict[K, V] = {}
        if isinstance(val, list):
            result = OrderedDict()
            items = val
        elif isinstance(val, OrderedDict):
            result = OrderedDict()
            items = val.items()
        else:
            items = val.items()
        for k, v in items:
            k_ = decode_k(k)
            v_ = decode_v(v__ITEM_FLAG__)
            result[k_] = v_
        return result
    return _decode_dict'''

ENCODE_TEXT = '''@singledispatch
def encode(obj: Any) -> Any:
    try:
        if is_dataclass(obj):
            d: dict[str, Any] = dict()
            for field in fields(obj):
                value = getattr(obj, field.name)
                try:
                    d[field.name] = encode(value)
                except TypeError as e:
                    raise e
            return d
        else:
            return copy.deepcopy(obj)
    except Exception as e:
        raise e'''

ENCODE_LIST_TEXT = '''@encode.register(list)
@encode.register(tuple)
@encode.register(set)
def encode_list(obj: Union[list[Any], set[Any], tuple[Any, ...]]) -> list[Any]:
    return list(map(encode, obj))'''

ENCODE_DICT_TEXT = '''@encode.register(Mapping)
def encode_dict(obj: Mapping) -> dict[Any, Any]:
    constructor = type(obj)
    result = constructor()
    for k, v in obj.items():
        k_ = encode(k)
        v_ = encode(v)
        if isinstance(k_, Hashable):
            result[k_] = v_
        else:
            if isinstance(result, dict):
                result = list(result.items())
            result.append((k_, v_))
    return result
    return type(obj)(((encode(k), encode(v)) for k, v in obj.items()))'''

DECODE_INT_TEXT = '''@decoding_fn_for_type(int)
def _decode_int(v: str) -> int:
    int_v = int(v)
    if isinstance(v, bool):
        pass
    elif not isinstance(v, int) and int_v != float(v):
        pass
    return int_v'''

DISPATCH_TESTS = {"t in _decoding_fns": "KRegistered", "is_dataclass_type(t)": "KDataclass", "t is Any": "KAny",
                  "is_dict(t)": "KDict", "is_set(t)": "KSet", "is_tuple(t)": "KTuple", "is_list(t)": "KList",
                  "is_union(t)": "KUnion", "is_enum(t)": "KEnum", "is_typevar(t)": "KTypeVar", "is_literal(t)": "KLiteral"}
# last statement of the branches the model relies on
DISPATCH_RETURNS = {"KRegistered": "return _decoding_fns[t]", "KDict": "return decode_dict(*args)",
                    "KList": "return decode_list(args[0])"}


def _item_flag(fn, callee, expected):
    """decode_list / decode_dict: the item decoder is called as callee(v) or callee(v, drop_extra_fields=<bool>)."""
    fn = _cleaned(fn)
    found = []
    for node in ast.walk(fn):
        if isinstance(node, ast.Call) and isinstance(node.func, ast.Name) and node.func.id == callee:
            if [unparse(a) for a in node.args] != ["v"]:
                raise Unrecognised(f"{fn.name}: arguments of {callee}: {unparse(node)[:80]}")
            if not node.keywords:
                found.append(None)
            elif [k.arg for k in node.keywords] == ["drop_extra_fields"]:
                found.append(const(node.keywords[0].value, bool))
                node.keywords = []
            else:
                raise Unrecognised(f"{fn.name}: keywords of {callee}: {unparse(node)[:80]}")
    if len(found) != 1:
        raise Unrecognised(f"{fn.name}: {callee} is called {len(found)} times")
    got = unparse(fn)
    want = expected.replace("__ITEM_FLAG__", "")
    if got != want:
        for i, (a, b) in enumerate(zip(got.splitlines(), want.splitlines())):
            if a != b:
                raise Unrecognised(f"{fn.name}: line {i + 1} is `{a.strip()[:100]}`, the model was written against `{b.strip()[:100]}`")
        raise Unrecognised(f"{fn.name}: number of cleaned lines")
    return found[0]


def _decode_field_fwd(fn):
    fn = _cleaned(fn)
    withs = [n for n in fn.body if isinstance(n, ast.With)]
    if len(withs) != 1:
        raise Unrecognised("decode_field: the warnings.catch_warnings block")
    shape = "\n".join(unparse(st) for st in withs[0].body)
    if shape not in DECODE_CALL_SHAPES:
        raise Unrecognised(f"decode_field: how the decoder is called: {shape[:200]}")
    withs[0].body = [ast.Expr(value=ast.Name(id="__DECODE_CALL__", ctx=ast.Load()))]
    got = unparse(fn)
    if got != DECODE_FIELD_SKELETON:
        for i, (a, b) in enumerate(zip(got.splitlines(), DECODE_FIELD_SKELETON.splitlines())):
            if a != b:
                raise Unrecognised(f"decode_field: line {i + 1} is `{a.strip()[:100]}`, the model was written against `{b.strip()[:100]}`")
        raise Unrecognised("decode_field: number of cleaned lines")
    return DECODE_CALL_SHAPES[shape]


def _dispatch(fn):
    """get_decoding_fn: the tests applied to the resolved type t, in order; the dataclass branch's partial(from_dict, t, ..)."""
    body = _cleaned(fn).body
    start = None
    for i, st in enumerate(body):
        if isinstance(st, ast.If) and unparse(st.test) in DISPATCH_TESTS:
            start = i
            break
    if start is None:
        raise Unrecognised("get_decoding_fn: dispatch chain not found")
    kinds, preset = [], "absent"
    for st in body[start:-1]:
        if not (isinstance(st, ast.If) and not st.orelse and unparse(st.test) in DISPATCH_TESTS):
            raise Unrecognised(f"get_decoding_fn: dispatch step `{unparse(st)[:80]}`")
        k = DISPATCH_TESTS[unparse(st.test)]
        if k in kinds:
            raise Unrecognised(f"get_decoding_fn: {k} tested twice")
        kinds.append(k)
        last = unparse(st.body[-1])
        if k in DISPATCH_RETURNS and last != DISPATCH_RETURNS[k]:
            raise Unrecognised(f"get_decoding_fn: the {k} branch ends with `{last[:80]}`")
        if k == "KDataclass":
            r = st.body[-1]
            if not (len(st.body) == 1 and isinstance(r, ast.Return) and isinstance(r.value, ast.Call) and unparse(r.value.func) == "partial"
                    and [unparse(a) for a in r.value.args] == ["from_dict", "t"]):
                raise Unrecognised(f"get_decoding_fn: the dataclass branch is `{last[:80]}`")
            if not r.value.keywords:
                preset = None
            elif [kw.arg for kw in r.value.keywords] == ["drop_extra_fields"]:
                v = r.value.keywords[0].value
                preset = None if (isinstance(v, ast.Constant) and v.value is None) else const(v, bool)
            else:
                raise Unrecognised(f"get_decoding_fn: the dataclass branch is `{last[:80]}`")
    if unparse(body[-1]) != "return try_constructor(t)":
        raise Unrecognised("get_decoding_fn: fallback")
    if preset == "absent":
        raise Unrecognised("get_decoding_fn: no dataclass branch")
    return kinds, preset


def _locate_error(fn):
    """_locate: every failure to resolve a well-formed dotted name raises the same class."""
    fn = _cleaned(fn)
    names = set()
    guards = 0
    for node in ast.walk(fn):
        if isinstance(node, ast.If) and unparse(node.test) in ("path == ''", "not len(part)"):
            guards += 1
            for st in node.body:
                st._c14_guard = True
    for node in ast.walk(fn):
        if isinstance(node, ast.Raise) and not getattr(node, "_c14_guard", False):
            exc = node.exc.func if isinstance(node.exc, ast.Call) else node.exc
            if not isinstance(exc, ast.Name):
                raise Unrecognised("_locate: raise of a non-name")
            names.add(exc.id)
    if guards != 2 or len(names) != 1:
        raise Unrecognised(f"_locate: guards={guards}, classes raised on an unresolvable name: {sorted(names)}")
    if unparse(fn.body[-1]) != "return obj":
        raise Unrecognised("_locate: result")
    return names.pop()


def emit(repo: str) -> str:
    ser = parse(repo, SER)
    utils = parse(repo, "simple_parsing/utils.py")
    key = const(module_assign(ser, "DC_TYPE_KEY"), str)
    if not key:
        raise Unrecognised("DC_TYPE_KEY is empty")
    facts = _from_dict_facts(find_def(ser, "from_dict"))
    _same_text("to_dict", find_def(ser, "to_dict"), TO_DICT_TEXT)
    _same_text("get_init_fields", find_def(ser, "get_init_fields"), GET_INIT_FIELDS_TEXT)
    mixin = find_class(ser, "SerializableMixin")
    _same_text("SerializableMixin.__init_subclass__", find_def(ser, "__init_subclass__", cls="SerializableMixin"), INIT_SUBCLASS_TEXT)
    if const(module_assign(mixin, "decode_into_subclasses"), bool) is not False:
        raise Unrecognised("SerializableMixin.decode_into_subclasses class default")
    # SerializableMixin.from_dict / to_dict forward to the module-level functions
    fd = unparse(_cleaned(find_def(ser, "from_dict", cls="SerializableMixin")).body[-1])
    if fd != "return from_dict(cls, obj, drop_extra_fields=drop_extra_fields)":
        raise Unrecognised(f"SerializableMixin.from_dict body: {fd[:100]}")
    td = unparse(_cleaned(find_def(ser, "to_dict", cls="SerializableMixin")).body[-1])
    if td != "return to_dict(self, dict_factory=dict_factory, recurse=recurse, save_dc_types=save_dc_types)":
        raise Unrecognised(f"SerializableMixin.to_dict body: {td[:100]}")
    _same_text("utils.all_subclasses", find_def(utils, "all_subclasses"), ALL_SUBCLASSES_TEXT)
    dec = parse(repo, DEC)
    enc = parse(repo, ENC)
    fwd = _decode_field_fwd(find_def(dec, "decode_field"))
    list_flag = _item_flag(find_def(dec, "decode_list"), "decode_item", DECODE_LIST_TEXT)
    dict_flag = _item_flag(find_def(dec, "decode_dict"), "decode_v", DECODE_DICT_TEXT)
    kinds, preset = _dispatch(find_def(dec, "get_decoding_fn"))
    _same_text("decoding._decode_int", find_def(dec, "_decode_int"), DECODE_INT_TEXT)
    _same_text("encoding.encode", find_def(enc, "encode"), ENCODE_TEXT)
    _same_text("encoding.encode_list", find_def(enc, "encode_list"), ENCODE_LIST_TEXT)
    _same_text("encoding.encode_dict", find_def(enc, "encode_dict"), ENCODE_DICT_TEXT)
    # a dataclass met inside a container is encoded by the registered cls.to_dict (or by encode's own dataclass branch, which
    # writes no type entry) with DEFAULT arguments: the default of save_dc_types is the flag it is encoded with
    from .pyast import kw_defaults
    d1 = kw_defaults(find_def(ser, "to_dict", cls="SerializableMixin")).get("save_dc_types")
    d2 = kw_defaults(find_def(ser, "to_dict")).get("save_dc_types")
    if d1 is None or d2 is None or const(d1, bool) != const(d2, bool):
        raise Unrecognised("to_dict: default of save_dc_types (method / function)")
    item_save = const(d1, bool)
    if item_save:
        raise Unrecognised("to_dict: save_dc_types defaults to True, but encode()'s own dataclass branch writes no type entry")
    d3 = kw_defaults(find_def(ser, "from_dict", cls="SerializableMixin")).get("drop_extra_fields")
    if d3 is None or not (isinstance(d3, ast.Constant) and d3.value is None):
        raise Unrecognised("SerializableMixin.from_dict: default of drop_extra_fields")
    locate_err = _locate_error(find_def(ser, "_locate"))
    args = "DC_TYPE_KEY SORT_KEY_GEN SUPERSET_CMP_GEN CAND_FIELDS_GEN REQUIRED_GEN PICK_GEN DROP_RULE_GEN DIS_ABSENT_GEN CHILD_DROP_GEN " \
           "FIELD_FORWARD_GEN LIST_ITEM_DROP_GEN DICT_VALUE_DROP_GEN DC_DECODER_PRESET_GEN CONSTRUCT_ERROR_GEN LOCATE_ERROR_GEN"
    return (
        "From SPV Require Import Base.Str Model.Subclass.\nOpen Scope string_scope.\n"
        f"Definition DC_TYPE_KEY : string := {cstr(key)}.\n"
        f"Definition SORT_KEY_GEN : sortkey := {facts['skey']}.\n"
        f"Definition SUPERSET_CMP_GEN : cmpop := {facts['cmp']}.\n"
        f"Definition CAND_FIELDS_GEN : candset := {facts['cset']}.\n"
        f"Definition REQUIRED_GEN : reqset := {facts['rset']}.\n"
        f"Definition PICK_GEN : pick := {facts['pick']}.\n"
        f"Definition DROP_RULE_GEN : droprule := {facts['rule']}.\n"
        f"Definition DIS_ABSENT_GEN : bool := {cbool(facts['absent'])}.\n"
        f"Definition CHILD_DROP_GEN : option bool := {facts['child_drop']}.\n"
        f"Definition FIELD_FORWARD_GEN : fwdrule := {fwd}.\n"
        f"Definition LIST_ITEM_DROP_GEN : option bool := {copt_bool(list_flag)}.\n"
        f"Definition DICT_VALUE_DROP_GEN : option bool := {copt_bool(dict_flag)}.\n"
        f"Definition DC_DECODER_PRESET_GEN : option bool := {copt_bool(preset)}.\n"
        f"Definition DECODE_DISPATCH_GEN : list dkind := [{'; '.join(kinds)}].\n"
        f"Definition ITEM_SAVE_TYPES_GEN : bool := {cbool(item_save)}.\n"
        f"Definition CONSTRUCT_ERROR_GEN : string := {cstr(facts['cerr'])}.\n"
        f"Definition LOCATE_ERROR_GEN : string := {cstr(locate_err)}.\n"
        "(* the model instantiated with the regenerated facts *)\n"
        f"Definition from_ser_gen := from_ser {args}.\n"
        "Definition to_ser_gen := to_ser DC_TYPE_KEY ITEM_SAVE_TYPES_GEN.\n"
        "Definition choose_gen := choose SORT_KEY_GEN SUPERSET_CMP_GEN CAND_FIELDS_GEN PICK_GEN.\n"
        "Definition dis_of_gen := dis_of DIS_ABSENT_GEN.\n"
        "Definition wf_hier_gen := wf_hier DC_TYPE_KEY.\n"
    )
