"""Facts for C08 (process-level history): which pieces of state survive from one API call to the next.

Monitored sites (fail closed on any other shape):
  parsing.py   ArgumentParser.__init__        stores the three spelling settings on self AND on the FieldWrapper class
               ArgumentParser._preprocessing  early return on `_preprocessing_done`; does it re-assert the parser's own
                                              three settings on FieldWrapper before option strings are generated?
               ArgumentParser.parse_known_args  is the help-only `--config_path` argument added unconditionally?
               ArgumentParser.print_help      runs `_preprocessing` with an empty argv when none is given
               ArgumentParser.set_defaults    writes file defaults onto the wrappers and constructor_arguments
  field_wrapper.py  FieldWrapper.option_strings reads the class-level settings at call time
  field_parsing.py  parse_tuple               closure call counter selecting the item type

Output: coq/Gen/FactsHistory.v."""
from __future__ import annotations

import ast

from .pyast import Unrecognised, clean, find_def, parse, unparse

SETTINGS = [("add_dash_variants", "add_option_string_dash_variants"),
            ("argument_generation_mode", "argument_generation_mode"),
            ("nested_mode", "nested_mode")]


def _b(x: bool) -> str:
    return "true" if x else "false"


def _top_texts(fn):
    return [unparse(s) for s in clean(fn.body)]


def _constructor(init):
    texts = _top_texts(init)
    for cls_attr, name in SETTINGS:
        if f"self.{name} = {name}" not in texts:
            raise Unrecognised(f"__init__ no longer stores {name} on self")
        if f"FieldWrapper.{cls_attr} = {name}" not in texts:
            raise Unrecognised(f"__init__ no longer writes FieldWrapper.{cls_attr}")
    if "self._preprocessing_done: bool = False" not in texts and "self._preprocessing_done = False" not in texts:
        raise Unrecognised("__init__: _preprocessing_done initialisation")
    for t in ("self.conflict_resolution = conflict_resolution", "self._conflict_resolver = ConflictResolver(self.conflict_resolution)"):
        if t not in texts:
            raise Unrecognised(f"__init__: `{t}`")


def _preprocessing(fn):
    body = clean(fn.body)
    texts = [unparse(s) for s in body]
    guard = "if self._preprocessing_done:\n    return"
    has_guard = bool(texts) and texts[0] == guard
    sets_done = "self._preprocessing_done = True" in texts
    if guard in texts and not has_guard:
        raise Unrecognised("_preprocessing: the _preprocessing_done guard is not the first statement")
    if has_guard != sets_done:
        raise Unrecognised("_preprocessing: guard and `_preprocessing_done = True` do not go together")
    cached = has_guard
    # WHERE is the flag assigned relative to the work: last statement (a set-up that raises is redone by the next call)
    # or right after the guard (a set-up that raises leaves the parser half-built for good)
    after_work = True
    if sets_done:
        if texts.count("self._preprocessing_done = True") != 1:
            raise Unrecognised("_preprocessing: _preprocessing_done assigned more than once")
        at = texts.index("self._preprocessing_done = True")
        if at == len(texts) - 1:
            after_work = True
        elif at == 1:
            after_work = False
        else:
            raise Unrecognised("_preprocessing: `_preprocessing_done = True` is neither the last statement nor right after the guard")
    if any("_preprocessing_done" in unparse(n) for st in body for n in ast.walk(st)
           if isinstance(n, (ast.Try, ast.With))):
        raise Unrecognised("_preprocessing: _preprocessing_done handled inside try/with")
    # where are option strings first generated?  (the conflict resolver reads FieldWrapper.option_strings)
    uses = [i for i, t in enumerate(texts) if "_conflict_resolver" in t or "_resolve_subgroups" in t or ".add_arguments(" in t]
    if not uses:
        raise Unrecognised("_preprocessing: no conflict resolution / argument creation found")
    first_use = min(uses)
    want = [f"FieldWrapper.{c} = self.{n}" for c, n in SETTINGS]
    pos = [texts.index(w) if w in texts else None for w in want]
    writes_anywhere = [unparse(n) for n in ast.walk(fn)
                       if isinstance(n, (ast.Assign, ast.AugAssign, ast.AnnAssign))
                       and "FieldWrapper." in unparse(n.targets[0] if isinstance(n, ast.Assign) else n.target)]
    # POSITION of the re-install relative to the readers: the conflict resolver / subgroup resolution (which read
    # FieldWrapper.option_strings) and the add-argument loop
    readers = [i for i, t in enumerate(texts) if "_conflict_resolver" in t or "_resolve_subgroups" in t]
    loops = [i for i, st in enumerate(body) if isinstance(st, ast.For) and ".add_arguments(" in texts[i]]
    if not readers or len(loops) != 1 or max(readers) > loops[0]:
        raise Unrecognised("_preprocessing: conflict resolution / subgroup resolution / add-argument loop not found in this order")
    first = True
    if all(p is None for p in pos):
        if writes_anywhere:
            raise Unrecognised(f"_preprocessing writes FieldWrapper attributes in an unknown way: {writes_anywhere[:3]}")
        reasserts, first = False, False
    elif all(p is not None for p in pos):
        if sorted(writes_anywhere) != sorted(want):
            raise Unrecognised(f"_preprocessing: extra writes to FieldWrapper: {writes_anywhere[:5]}")
        if has_guard and min(pos) < 1:
            raise Unrecognised("_preprocessing: re-assertion placed before the guard")
        if max(pos) < min(readers):
            reasserts, first = True, True             # before everything that reads the settings
        elif min(pos) > max(readers) and max(pos) < loops[0]:
            reasserts, first = True, False            # only the add-argument loop sees the parser's own settings
        else:
            raise Unrecognised("_preprocessing: the re-install of the three settings sits between / after its readers")
    else:
        raise Unrecognised("_preprocessing: the three settings are re-asserted only partly")
    return reasserts, first, cached, after_work


def _config_arg(fn):
    body = clean(fn.body)
    blocks = [s for s in body if isinstance(s, ast.If) and unparse(s.test) == "self.add_config_path_arg"]
    if len(blocks) != 1 or blocks[0].orelse:
        raise Unrecognised("parse_known_args: `if self.add_config_path_arg:` block")
    idx = body.index(blocks[0])
    pre = [i for i, s in enumerate(body) if "self._preprocessing(" in unparse(s)]
    if len(pre) != 1 or pre[0] < idx:
        raise Unrecognised("parse_known_args: the config-path block must precede the single _preprocessing call")
    blk = clean(blocks[0].body)
    texts = [unparse(s) for s in blk]

    def index_of(pred, what):
        hits = [i for i, t in enumerate(texts) if pred(t)]
        if len(hits) != 1:
            raise Unrecognised(f"parse_known_args: {what} ({len(hits)} matches)")
        return hits[0]

    i_tmp = index_of(lambda t: t.startswith("temp_parser = ArgumentParser("), "temporary parser")
    tmp = texts[i_tmp]
    for c, n in SETTINGS:
        if f"{n}=FieldWrapper.{c}" not in tmp:
            raise Unrecognised("parse_known_args: the temporary parser no longer copies the FieldWrapper settings")
    i_tadd = index_of(lambda t: t.startswith("temp_parser.add_argument("), "temp_parser.add_argument")
    if "nargs='*'" not in texts[i_tadd]:
        raise Unrecognised("parse_known_args: nargs of the temporary --config_path argument")
    i_parse = index_of(lambda t: t == "(args_with_config_path, args) = temp_parser.parse_known_args(args)"
                       or t == "args_with_config_path, args = temp_parser.parse_known_args(args)", "temp parse")
    i_set = index_of(lambda t: t.startswith("if config_path is not None:") and "self.set_defaults(config_file)" in t,
                     "set_defaults over the named files")
    add_call = "self.add_argument(f'--{config_path_name}'"
    i_add = index_of(lambda t: add_call in t, "help-only add_argument")
    if not (i_tmp < i_tadd < i_parse < i_set < i_add):
        raise Unrecognised("parse_known_args: order of the statements of the config-path block")
    stmt = blk[i_add]
    refreshed = False
    if isinstance(stmt, ast.Expr):
        every = True
    elif isinstance(stmt, ast.If) and len(clean(stmt.body)) == 1 \
            and unparse(stmt.test) == "f'--{config_path_name}' not in self._option_string_actions":
        every = False
        # does an existing argument get THIS call's value as its default (else-branch), or keep the adding call's?
        els = [unparse(x) for x in clean(stmt.orelse)]
        if els == []:
            refreshed = False
        elif els == ["self._option_string_actions[f'--{config_path_name}'].default = config_path"]:
            refreshed = True
        else:
            raise Unrecognised(f"parse_known_args: else-branch of the help-only add_argument guard: {els[:2]}")
    else:
        raise Unrecognised("parse_known_args: unknown guard around the help-only add_argument")
    if i_add != len(blk) - 1:
        raise Unrecognised("parse_known_args: statements after the help-only add_argument")
    return every, refreshed


def _print_help(fn):
    texts = _top_texts(fn)
    if texts != ["self._preprocessing(args=list(args) if args else [])", "return super().print_help(file)"]:
        raise Unrecognised(f"print_help body: {texts}")


def _set_defaults(fn):
    src = unparse(fn)
    if "wrapper.set_default(default_for_dataclass)" not in src:
        raise Unrecognised("set_defaults: wrapper.set_default call")
    texts = _top_texts(fn)
    if not any(t.startswith("self.constructor_arguments = dict_union(self.constructor_arguments, kwarg_defaults_set_in_dataclasses")
               for t in texts):
        raise Unrecognised("set_defaults: constructor_arguments accumulation")
    return True


def _nested_mode_reads(set_defaults, add_arguments):
    """Which nested_mode do set_defaults (re-rooting of a config file) and _add_arguments test: the parser's own
    (self.nested_mode -> True) or the class-level one (FieldWrapper.nested_mode -> False)?"""
    kinds = []
    for fn, tail in ((set_defaults, " == NestedMode.WITHOUT_ROOT and len(self._wrappers) == 1"),
                     (add_arguments, " == NestedMode.WITHOUT_ROOT and all((field.name in self._defaults for field in new_wrapper.fields))")):
        tests = [unparse(n.test) for n in ast.walk(fn) if isinstance(n, ast.If) and "WITHOUT_ROOT" in unparse(n.test)]
        if len(tests) != 1:
            raise Unrecognised(f"{fn.name}: {len(tests)} tests of the nested mode")
        t = tests[0]
        if t == "self.nested_mode" + tail:
            kinds.append(True)
        elif t == "FieldWrapper.nested_mode" + tail:
            kinds.append(False)
        else:
            raise Unrecognised(f"{fn.name}: nested-mode test `{t}`")
    if kinds[0] != kinds[1]:
        raise Unrecognised("set_defaults and _add_arguments read different nested modes")
    return kinds[0]


def _option_strings(fn):
    src = unparse(fn)
    for needle in ("add_dash_variants = DashVariant(FieldWrapper.add_dash_variants)",
                   "gen_mode = type(self).argument_generation_mode",
                   "nested_mode = type(self).nested_mode"):
        if needle not in src:
            raise Unrecognised(f"option_strings no longer reads the class-level setting: {needle}")


def _parse_tuple(fn):
    body = clean(fn.body)
    inner = [s for s in body if isinstance(s, ast.FunctionDef)]
    if len(inner) != 1 or inner[0].name != "_parse_tuple":
        raise Unrecognised("parse_tuple: inner converter")
    conv = inner[0]
    nonlocals = [n for n in ast.walk(conv) if isinstance(n, (ast.Nonlocal, ast.Global))]
    stores = [unparse(n) for n in ast.walk(conv)
              if isinstance(n, (ast.Attribute, ast.Subscript)) and isinstance(n.ctx, ast.Store)]
    outer = [unparse(s) for s in body if s is not conv]
    if not nonlocals:
        if stores or any("calls_count" in t for t in outer) or "calls_count" in unparse(conv):
            raise Unrecognised("parse_tuple: state kept in an unknown way")
        raise Unrecognised("parse_tuple: a converter without call counter is not modelled (how does it pick the item type?)")
    if len(nonlocals) != 1 or nonlocals[0].names != ["calls_count"] or stores:
        raise Unrecognised("parse_tuple: nonlocal state other than calls_count")
    if "calls_count: int = 0" not in outer and "calls_count = 0" not in outer:
        raise Unrecognised("parse_tuple: calls_count initialisation")
    texts = [unparse(s) for s in clean(conv.body)]
    need = ["parsing_fn_index = calls_count", "item_type = tuple_item_types[parsing_fn_index]",
            "parsing_fn = get_parsing_fn(item_type)", "parsed_value = parsing_fn(val)", "calls_count += 1",
            "return parsed_value"]
    idx = []
    for t in need:
        if texts.count(t) != 1:
            raise Unrecognised(f"parse_tuple: statement `{t}` not found exactly once")
        idx.append(texts.index(t))
    if idx != sorted(idx):
        raise Unrecognised("parse_tuple: statement order (the counter must advance after a successful conversion)")
    resets = [t for t in texts if t.startswith("calls_count =") and t != "calls_count += 1"]
    if resets:
        raise Unrecognised(f"parse_tuple: counter reset {resets}")
    return True


_MUTATORS = {"append", "extend", "insert", "pop", "remove", "sort", "reverse", "clear", "update", "setdefault", "popitem",
             "add", "discard", "appendleft", "popleft", "rotate", "__setitem__", "__delitem__", "__setattr__"}


def _base_name(node):
    while isinstance(node, (ast.Attribute, ast.Subscript)):
        node = node.value
    return node.id if isinstance(node, ast.Name) else None


def _stateless_converters(mod):
    """The history model lets ONE converter keep state between calls (parse_tuple's counter, a fact of its own).  Every other
    closure that field_parsing.py hands to argparse as `type=` must be a function of its argument: no nonlocal/global, no
    store into - and no mutating method call on - anything that is not a local of the closure itself (a closed-over list
    that is re-ordered on success, a memo dict, an attribute of the enclosing function, ...).  Seeded change C08-07."""
    for f in mod.body:
        if not isinstance(f, ast.FunctionDef) or f.name == "parse_tuple":
            continue
        for g in ast.walk(f):
            if g is f or not isinstance(g, (ast.FunctionDef, ast.Lambda)):
                continue
            gname = getattr(g, "name", "<lambda>")
            a = g.args
            own = {x.arg for x in a.posonlyargs + a.args + a.kwonlyargs} | {x.arg for x in (a.vararg, a.kwarg) if x}
            nodes = list(ast.walk(g))
            own |= {n.id for n in nodes if isinstance(n, ast.Name) and isinstance(n.ctx, ast.Store)}
            for n in nodes:
                if isinstance(n, (ast.Nonlocal, ast.Global)):
                    raise Unrecognised(f"{f.name}.{gname}: converter keeps state ({unparse(n)})")
                if isinstance(n, (ast.Attribute, ast.Subscript)) and isinstance(n.ctx, (ast.Store, ast.Del)) \
                        and _base_name(n) not in own:
                    raise Unrecognised(f"{f.name}.{gname}: converter writes to a non-local object ({unparse(n)})")
                if isinstance(n, ast.Call) and isinstance(n.func, ast.Attribute) and n.func.attr in _MUTATORS \
                        and _base_name(n.func.value) not in own:
                    raise Unrecognised(f"{f.name}.{gname}: converter mutates a closed-over object ({unparse(n)})")
    return True


def _parse_enum(fn):
    """What is the module-level registry `_parsing_fns` indexed by in parse_enum: the Enum class object (True) or its
    "<module>.<qualname>" string (False)?  Anything else is unrecognised."""
    body = clean(fn.body)
    inner = [s for s in body if isinstance(s, ast.FunctionDef)]
    if len(inner) != 1 or inner[0].name != "_parse_enum":
        raise Unrecognised("parse_enum: inner converter")
    conv_src = unparse(inner[0])
    if "return enum_type[v]" not in conv_src or "except KeyError" not in conv_src or "raise ValueError(" not in conv_src:
        raise Unrecognised("parse_enum: the converter is no longer `enum_type[v]` with KeyError turned into ValueError")
    name_key = "f'{enum_type.__module__}.{enum_type.__qualname__}'"
    names = {}
    for st in body:
        if isinstance(st, ast.Assign) and len(st.targets) == 1 and isinstance(st.targets[0], ast.Name):
            names[st.targets[0].id] = unparse(st.value)

    def key_kind(node):
        t = unparse(node)
        if t == "enum_type":
            return "class"
        if t == name_key or names.get(t) == name_key:
            return "name"
        raise Unrecognised(f"parse_enum: _parsing_fns indexed by `{t}`")

    stores, loads = [], []
    for n in ast.walk(fn):
        if isinstance(n, ast.Subscript) and unparse(n.value) == "_parsing_fns":
            (stores if isinstance(n.ctx, ast.Store) else loads).append(key_kind(n.slice))
        if isinstance(n, ast.Compare) and len(n.comparators) == 1 and unparse(n.comparators[0]) == "_parsing_fns":
            loads.append(key_kind(n.left))
        if isinstance(n, ast.Call) and unparse(n.func).startswith("_parsing_fns."):
            raise Unrecognised(f"parse_enum: registry accessed through `{unparse(n.func)}`")
    if len(stores) != 1:
        raise Unrecognised(f"parse_enum: {len(stores)} stores into _parsing_fns")
    kind = stores[0]
    if kind not in loads:
        raise Unrecognised("parse_enum: the registry is written under a key it is never looked up with")
    if kind == "class" and set(loads) != {"class"}:
        raise Unrecognised("parse_enum: class-keyed store with other look-ups")
    return kind == "class"


def emit(repo: str) -> str:
    pt = parse(repo, "simple_parsing/parsing.py")
    _constructor(find_def(pt, "__init__", cls="ArgumentParser"))
    reasserts, first, cached, after_work = _preprocessing(find_def(pt, "_preprocessing", cls="ArgumentParser"))
    every, refreshed = _config_arg(find_def(pt, "parse_known_args", cls="ArgumentParser"))
    _print_help(find_def(pt, "print_help", cls="ArgumentParser"))
    persist = _set_defaults(find_def(pt, "set_defaults", cls="ArgumentParser"))
    own_mode = _nested_mode_reads(find_def(pt, "set_defaults", cls="ArgumentParser"),
                                  find_def(pt, "_add_arguments", cls="ArgumentParser"))
    fw = parse(repo, "simple_parsing/wrappers/field_wrapper.py")
    _option_strings(find_def(fw, "option_strings", cls="FieldWrapper"))
    fp = parse(repo, "simple_parsing/wrappers/field_parsing.py")
    counter = _parse_tuple(find_def(fp, "parse_tuple"))
    by_class = _parse_enum(find_def(fp, "parse_enum"))
    stateless = _stateless_converters(fp)
    return (
        "From SPV Require Import Base.Str Model.History.\nOpen Scope string_scope.\n"
        "(* does _preprocessing re-assert the parser's own three settings on FieldWrapper before option strings are generated *)\n"
        f"Definition reasserts_gen : bool := {_b(reasserts)}.\n"
        "(* ... and is that re-install placed before EVERYTHING that reads them (conflict resolver, subgroup resolution) *)\n"
        f"Definition reassert_first_gen : bool := {_b(first)}.\n"
        "(* do set_defaults / _add_arguments test the parser's own nested_mode (false: FieldWrapper.nested_mode) *)\n"
        f"Definition defaults_own_mode_gen : bool := {_b(own_mode)}.\n"
        "(* is the help-only --config_path argument added unconditionally on every parse *)\n"
        f"Definition cfgarg_every_parse_gen : bool := {_b(every)}.\n"
        "(* is set-up cached by _preprocessing_done *)\n"
        f"Definition setup_cached_gen : bool := {_b(cached)}.\n"
        "(* does the tuple converter keep a call counter across calls *)\n"
        f"Definition tuple_counter_persists_gen : bool := {_b(counter)}.\n"
        "(* does set_defaults(config file) write onto the wrappers / constructor_arguments for good *)\n"
        f"Definition defaults_persist_gen : bool := {_b(persist)}.\n"
        "(* is `_preprocessing_done = True` the last statement of _preprocessing (false: assigned before the work) *)\n"
        f"Definition done_after_work_gen : bool := {_b(after_work)}.\n"
        "(* when the help-only --config_path argument exists already, is its default set to this call's value *)\n"
        f"Definition cfgarg_refreshed_gen : bool := {_b(refreshed)}.\n"
        "(* does parse_enum key the module-level registry _parsing_fns by the Enum class object (false: by its qualified name) *)\n"
        f"Definition reg_by_class_gen : bool := {_b(by_class)}.\n"
        "Definition facts_gen : facts :=\n"
        "  mkfacts reasserts_gen reassert_first_gen defaults_own_mode_gen cfgarg_every_parse_gen setup_cached_gen tuple_counter_persists_gen defaults_persist_gen\n"
        "          done_after_work_gen cfgarg_refreshed_gen reg_by_class_gen.\n"
        "(* guard: apart from the tuple converter above, no closure of field_parsing.py keeps or mutates state between calls *)\n"
        f"Definition converters_stateless_gen : bool := {_b(stateless)}.\n"
        "Definition step_gen := step facts_gen.\n"
        "Definition fresh_gen := fresh facts_gen.\n"
        "Definition benign_gen := benign facts_gen.\n"
    )
