"""FieldWrapper.option_strings dumped as a MiniPy block (coq/Model/MiniPy.v): the regenerated *source* of the method the
C03/C10/C16 models describe.  Output: coq/Gen/FactsOptStrSrc.v."""
from __future__ import annotations

from .minipy import Ctx, method_block
from .pyast import cstr, find_def, parse

ATTRS = ["self.name", "self.prefix", "self.dest", "self.aliases", "FieldWrapper.add_dash_variants",
         "type(self).argument_generation_mode", "type(self).nested_mode", "self.field.metadata.get('positional')"]


def emit(repo: str) -> str:
    fw = parse(repo, "simple_parsing/wrappers/field_wrapper.py")
    fn = find_def(fw, "option_strings", cls="FieldWrapper")
    c = Ctx(attr_vars=ATTRS, enum_prefixes=("DashVariant.", "ArgumentGenerationMode.", "NestedMode."),
            identity_calls=("DashVariant", "list"))
    blk, assigned = method_block(fn, c)
    return ("From SPV Require Import Base.Str Model.MiniPy.\nOpen Scope string_scope.\n"
            f"Definition option_strings_src : block :=\n  {blk}.\n"
            "(* every local the method assigns, in order of first assignment (the interpreter's environment pre-declares them) *)\n"
            f"Definition option_strings_locals : list string := [{'; '.join(cstr(a) for a in assigned)}].\n")
