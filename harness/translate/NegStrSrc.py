"""BooleanOptionalAction.__init__ (simple_parsing/helpers/custom_actions.py): the statements that compute
`self.negative_option_strings`, dumped as a MiniPy block (coq/Model/MiniPy.v) -- the regenerated *source* of what
Model/BoolFlag.v `negative_option_strings` describes.  Output: coq/Gen/FactsNegStrSrc.v.

Dumped range: from `self.negative_prefix = negative_prefix` up to (excluding) `if help is not None ...`.  The statements
around the range are NOT dumped; they are checked (fail closed) not to interfere with it:
  before: only `option_strings = list(option_strings)` and statements that store to nothing but `nargs`, `more_info`,
          `field` (the nargs validation, which ends in `raise ValueError` for an invalid nargs);
  after : may read `self.negative_option_strings` only as `option_strings + self.negative_option_strings`
          (the argument of super().__init__)."""
from __future__ import annotations

import ast

from .minipy import Ctx, alias_check, block
from .pyast import Unrecognised, clean, cstr, find_def, parse, unparse

INPUTS = ["negative_prefix", "negative_option", "_conflict_prefix", "option_strings"]
ATTR_TARGETS = ["self.negative_prefix", "self.negative_option", "self.negative_option_strings"]
START = "self.negative_prefix = negative_prefix"
MUST_CONTAIN = "self.negative_option_strings: list[str] = []"
END_PREFIX = "if help is not None"
PRE_STORES_ALLOWED = {"nargs", "more_info", "field", "option"}   # `option` is the comprehension variable of `field`
PRE_EXACT = {"option_strings = list(option_strings)"}
RESULT = "self.negative_option_strings"


def stores(node):
    out = set()
    for n in ast.walk(node):
        if isinstance(n, (ast.Name, ast.Attribute, ast.Subscript)) and isinstance(n.ctx, (ast.Store, ast.Del)):
            out.add(unparse(n))
        if isinstance(n, ast.Call) and isinstance(n.func, ast.Attribute) and n.func.attr in (
                "append", "extend", "insert", "remove", "pop", "clear", "sort", "reverse", "update", "setattr", "__setattr__"):
            out.add(unparse(n.func.value))
    return out


def emit(repo: str) -> str:
    tree = parse(repo, "simple_parsing/helpers/custom_actions.py")
    fn = find_def(tree, "__init__", cls="BooleanOptionalAction")
    params = [a.arg for a in fn.args.posonlyargs + fn.args.args + fn.args.kwonlyargs]
    for p in INPUTS:
        if p not in params:
            raise Unrecognised(f"BooleanOptionalAction.__init__ has no parameter {p}")
    body = clean(fn.body)
    srcs = [unparse(s) for s in body]
    if srcs.count(START) != 1 or srcs.count(MUST_CONTAIN) != 1:
        raise Unrecognised(f"expected exactly one `{START}` and one `{MUST_CONTAIN}` at the top level of __init__")
    start = srcs.index(START)
    ends = [i for i, s in enumerate(srcs) if s.startswith(END_PREFIX)]
    if len(ends) != 1 or not (start < srcs.index(MUST_CONTAIN) < ends[0]):
        raise Unrecognised(f"expected exactly one `{END_PREFIX} ...` after the negative option strings")
    end = ends[0]
    for s, txt in zip(body[:start], srcs[:start]):
        if txt in PRE_EXACT:
            continue
        bad = stores(s) - PRE_STORES_ALLOWED
        if bad:
            raise Unrecognised(f"statement before the dumped range stores to {sorted(bad)}: {txt[:80]}")
    for s, txt in zip(body[end:], srcs[end:]):
        rest = txt.replace("option_strings + self.negative_option_strings", "")
        if "negative_option_strings" in rest or "negative_prefix" in rest or "negative_option" in rest:
            raise Unrecognised(f"statement after the dumped range touches the negative options: {txt[:80]}")
    c = Ctx(attr_targets=ATTR_TARGETS)
    alias_check(body[start:end], c)
    ss = block(body[start:end], c)
    blk = "[" + ";\n   ".join(ss) + "]"
    locs = [a for a in c.assigned if a not in INPUTS]
    return ("From SPV Require Import Base.Str Model.MiniPy.\nOpen Scope string_scope.\n"
            f"(* parameters read by the dumped statements *)\nDefinition neg_strings_inputs : list string := [{'; '.join(cstr(a) for a in INPUTS)}].\n"
            f"Definition neg_strings_body : block :=\n  {blk}.\n"
            "(* every other name the statements assign, in order of first assignment (the interpreter's environment pre-declares them) *)\n"
            f"Definition neg_strings_locals : list string := [{'; '.join(cstr(a) for a in locs)}].\n"
            "(* what the rest of the class reads from these statements *)\n"
            f"Definition neg_strings_src : block := (neg_strings_body ++ [SReturn (EVar {cstr(RESULT)})])%list.\n")
