"""Facts for `--help` (property C16).

Read from the repository:
  * DataclassWrapper.__init__: the test that skips a field (`not field.init or field.metadata.get("cmd", True) is False`),
    and that add_arguments registers one action per field wrapper in one argument group titled `title`;
  * FieldWrapper.default: the test that lets a default set from outside win (`self._default is not None`);
  * FieldWrapper.get_arg_options: the `help=` keyword chain (`self.help` / TEMPORARY_TOKEN / nothing) and `default=`;
  * help_formatter.py: TEMPORARY_TOKEN, SimpleHelpFormatter's base classes and its `_get_help_string`;
  * parsing.py: the default formatter class, that print_help runs `_preprocessing` first (and whether it applies the
    constructor's config files first), that parse_known_args applies those files and then sets the parser up, that
    set-up is cached, that the help action is argparse's, and that none of the printing/exit methods is overridden.
Read from the standard library of the interpreter under test (argparse.py): what the help action does, the exit
status of `parser.exit()`, the stream of `print_help`, and which base class supplies `_get_help_string`.

`option_order_preserved_gen` is NOT emitted here: it is a fact of Gen/FactsConflicts.v, which this file imports; likewise
DEFAULT_NEGATIVE_PREFIX (bool fields) comes from Gen/FactsBool.v.

Output: coq/Gen/FactsHelp.v (imports Model.Help and instantiates it)."""
from __future__ import annotations

import argparse as _argparse_of_interpreter
import ast

from .pyast import Unrecognised, clean, const, cstr, find_class, find_def, if_chain, kw_defaults, module_assign, parse, unparse


def _bool_expr(n, cmd_default):
    """the skip test as a Gallina boolean over `init` and `cmd` (cmd = metadata["cmd"] when present, else the default
    written in the `.get` call, which is recorded in cmd_default[0])"""
    if isinstance(n, ast.BoolOp):
        op = " || " if isinstance(n.op, ast.Or) else " && "
        return "(" + op.join(_bool_expr(v, cmd_default) for v in n.values) + ")"
    if isinstance(n, ast.UnaryOp) and isinstance(n.op, ast.Not):
        return f"(negb {_bool_expr(n.operand, cmd_default)})"
    if unparse(n) == "field.init":
        return "init"
    if isinstance(n, ast.Compare) and len(n.ops) == 1 and isinstance(n.ops[0], (ast.Is, ast.IsNot, ast.Eq, ast.NotEq)):
        rhs = n.comparators[0]
        if isinstance(rhs, ast.Constant) and isinstance(rhs.value, bool):
            inner = _bool_expr(n.left, cmd_default)
            same = isinstance(n.ops[0], (ast.Is, ast.Eq))
            return inner if (rhs.value == same) else f"(negb {inner})"
    if isinstance(n, ast.Call) and unparse(n.func) == "field.metadata.get" and len(n.args) == 2 and not n.keywords \
            and const(n.args[0], str) == "cmd":
        d = const(n.args[1], bool)
        if cmd_default and cmd_default[0] != d:
            raise Unrecognised("two different defaults for metadata['cmd']")
        cmd_default[:] = [d]
        return "cmd"
    raise Unrecognised(f"skip test: {unparse(n)}")


def _skip_test(dw):
    init = find_def(dw, "__init__", cls="DataclassWrapper")
    loops = [n for n in init.body if isinstance(n, ast.For) and unparse(n.iter) == "dataclass_fields" and unparse(n.target) == "field"]
    if len(loops) != 1:
        raise Unrecognised("DataclassWrapper.__init__: loop over dataclass_fields")
    body = clean(loops[0].body)
    first = body[0]
    if not (isinstance(first, ast.If) and not first.orelse and [type(s) for s in clean(first.body)] == [ast.Continue]):
        raise Unrecognised("DataclassWrapper.__init__: the loop does not start with `if <test>: continue`")
    # no other statement of the loop may skip a field
    for s in body[1:]:
        for n in ast.walk(s):
            if isinstance(n, (ast.Continue, ast.Break)):
                raise Unrecognised("DataclassWrapper.__init__: a second skip in the field loop")
    cmd_default = []
    expr = _bool_expr(first.test, cmd_default)
    if not cmd_default:
        raise Unrecognised("skip test does not read metadata['cmd']")
    appends = [unparse(n) for n in ast.walk(loops[0]) if isinstance(n, ast.Call) and unparse(n.func) == "self.fields.append"]
    if not appends or any(a != "self.fields.append(field_wrapper)" for a in appends):
        raise Unrecognised("DataclassWrapper.__init__: how field wrappers are collected")
    return expr, cmd_default[0]


def _add_arguments(dw):
    fn = find_def(dw, "add_arguments", cls="DataclassWrapper")
    texts = [unparse(s) for s in ast.walk(fn) if isinstance(s, (ast.Assign, ast.For))]
    if "group = parser.add_argument_group(title=self.title, description=self.description)" not in texts:
        raise Unrecognised("add_arguments: the argument group")
    loops = [n for n in fn.body if isinstance(n, ast.For)]
    if len(loops) != 1 or unparse(loops[0].iter) != "self.fields" or unparse(loops[0].target) != "wrapped_field":
        raise Unrecognised("add_arguments: loop over self.fields")
    calls = [unparse(n) for n in ast.walk(loops[0]) if isinstance(n, ast.Call) and unparse(n.func) == "group.add_argument"]
    if calls != ["group.add_argument(*wrapped_field.option_strings, **arg_options)"]:
        raise Unrecognised(f"add_arguments: registration call {calls}")


def _str_expr(n, env):
    """a string-valued expression over the names in env (f-strings, +, ', '.join(<f-string> for x in <list name>))"""
    if isinstance(n, ast.Constant) and isinstance(n.value, str):
        return cstr(n.value)
    if isinstance(n, ast.Name) and n.id in env:
        return env[n.id]
    if unparse(n) in env:
        return env[unparse(n)]
    if isinstance(n, ast.BinOp) and isinstance(n.op, ast.Add):
        return f"({_str_expr(n.left, env)} ++ {_str_expr(n.right, env)})"
    if isinstance(n, ast.JoinedStr):
        parts = []
        for v in n.values:
            if isinstance(v, ast.Constant):
                parts.append(cstr(const(v, str)))
            elif isinstance(v, ast.FormattedValue) and v.conversion == -1 and v.format_spec is None:
                parts.append(_str_expr(v.value, env))
            else:
                raise Unrecognised(f"f-string part {unparse(v)}")
        if not parts:
            return '""'
        out = parts[-1]
        for q in reversed(parts[:-1]):
            out = f"({q} ++ {out})"
        return out
    if isinstance(n, ast.Call) and isinstance(n.func, ast.Attribute) and n.func.attr == "join" and len(n.args) == 1 \
            and not n.keywords and isinstance(n.args[0], ast.GeneratorExp):
        g = n.args[0]
        if len(g.generators) != 1 or g.generators[0].ifs or not isinstance(g.generators[0].target, ast.Name):
            raise Unrecognised(f"join over {unparse(g)}")
        var = g.generators[0].target.id
        src = unparse(g.generators[0].iter)
        if src not in env:
            raise Unrecognised(f"join over {src}")
        body = _str_expr(g.elt, dict(env, **{var: var}))
        return f"(String.concat {cstr(const(n.func.value, str))} (map (fun {var} => {body}) {env[src]}))"
    raise Unrecognised(f"string expression {unparse(n)}")


def _title(dw):
    """DataclassWrapper.title as a Gallina function of (qualname, destinations)"""
    fn = find_def(dw, "title", cls="DataclassWrapper")
    env = {"self.dataclass.__qualname__": "qualname", "self.destinations": "destinations"}
    out = None
    for st in clean(fn.body):
        if isinstance(st, ast.Assign) and len(st.targets) == 1 and isinstance(st.targets[0], ast.Name):
            env[st.targets[0].id] = _str_expr(st.value, env)
        elif isinstance(st, ast.Return) and st.value is not None:
            out = _str_expr(st.value, env)
            break
        else:
            raise Unrecognised(f"DataclassWrapper.title: statement {unparse(st)[:80]}")
    if out is None:
        raise Unrecognised("DataclassWrapper.title does not return")
    return out


DESC_ASSIGNS = {
    "doc": ["docstring.get_attribute_docstring(self.parent.dataclass, self._field.name)", "dp_parse(class_docstring)"],
    "class_docstring": ["inspect_getdoc(self.dataclass) or ''"],
    "description": ["_description_from_docstring(doc)"],
    "num_lines": ["len(description.splitlines())"],
    "shortened_description": ["'\\n'.join(description.splitlines()[:MAX_DOCSTRING_DESC_LINES_HEIGHT]) + ' ...'"],
    "fields_have_docstrings": ["any((f._docstring.help_string for f in self.fields))"],
    "docstring_is_huge": ["num_lines > MAX_DOCSTRING_DESC_LINES_HEIGHT"],
}
DESC_TESTS = {
    "self.parent and self._field": "is_member",
    "doc is not None": "true",
    "doc.docstring_below": '(negb (String.eqb below ""))',
    "doc.comment_above": '(negb (String.eqb above ""))',
    "doc.comment_inline": '(negb (String.eqb inline ""))',
    "not class_docstring": '(String.eqb class_docstring "")',
    "not fields_have_docstrings": "(negb fields_have_docstrings)",
    "fields_have_docstrings": "fields_have_docstrings",
    "docstring_is_huge": "huge",
    "not docstring_is_huge": "(negb huge)",
}
DESC_RETURNS = {"doc.docstring_below": "below", "doc.comment_above": "above", "doc.comment_inline": "inline", "''": '""',
                "description": "description", "shortened_description": "shortened"}


def _description(dw):
    """DataclassWrapper.description as a Gallina function; assignments are checked against what the variables of the
    generated function stand for, the control flow is translated (an `if` that does not return falls through)"""
    fn = find_def(dw, "description", cls="DataclassWrapper")

    def stmts(body, k):
        if not body:
            if k is None:
                raise Unrecognised("DataclassWrapper.description may fall off the end")
            return k
        st, rest = body[0], body[1:]
        if isinstance(st, ast.ImportFrom):
            if unparse(st) != "from simple_parsing.decorators import _description_from_docstring":
                raise Unrecognised(f"DataclassWrapper.description: {unparse(st)}")
            return stmts(rest, k)
        if isinstance(st, ast.Assign) and len(st.targets) == 1 and isinstance(st.targets[0], ast.Name):
            name = st.targets[0].id
            if name not in DESC_ASSIGNS or unparse(st.value) not in DESC_ASSIGNS[name]:
                raise Unrecognised(f"DataclassWrapper.description: {unparse(st)[:120]}")
            return stmts(rest, k)
        if isinstance(st, ast.Return):
            t = unparse(st.value) if st.value is not None else None
            if t not in DESC_RETURNS:
                raise Unrecognised(f"DataclassWrapper.description: return {t}")
            return DESC_RETURNS[t]
        if isinstance(st, ast.If):
            after = stmts(rest, k) if (rest or k is not None) else None
            arms, els = if_chain(st)
            out = stmts(els, after)
            for test, b in reversed(arms):
                tt = DESC_TESTS.get(unparse(test))
                if tt is None:
                    raise Unrecognised(f"DataclassWrapper.description: test {unparse(test)}")
                out = f"(if {tt} then {stmts(b, after)} else {out})"
            return out
        raise Unrecognised(f"DataclassWrapper.description: statement {unparse(st)[:80]}")

    return stmts(clean(fn.body), None)


def _arg_help(fwt):
    fn = find_def(fwt, "get_arg_options", cls="FieldWrapper")
    body = clean(fn.body)
    texts = [unparse(s) for s in body]
    if "_arg_options['default'] = self.default" not in texts:
        raise Unrecognised("get_arg_options: default= is not self.default")
    chains = [s for s in body if isinstance(s, ast.If) and unparse(s.test) == "self.help"]
    if len(chains) != 1:
        raise Unrecognised("get_arg_options: the help chain")
    helps = [n for n in ast.walk(fn) if isinstance(n, ast.Assign) and unparse(n.targets[0]) == "_arg_options['help']"]
    arms, els = if_chain(chains[0])
    if len(helps) != sum(len(b) for _, b in arms) + len(els):
        raise Unrecognised("get_arg_options: help= is also assigned outside the chain")
    tests = {"self.help": 'negb (String.eqb help "")',
             "self.default is not None": "(match default with Some _ => true | None => false end)",
             "self.default is None": "(match default with Some _ => false | None => true end)"}
    bodies = {"_arg_options['help'] = self.help": "Some help", "_arg_options['help'] = TEMPORARY_TOKEN": "Some TEMPORARY_TOKEN_gen"}

    def body_of(b):
        if not b:
            return "None"
        if len(b) != 1 or unparse(b[0]) not in bodies:
            raise Unrecognised(f"get_arg_options: help arm {[unparse(x) for x in b]}")
        return bodies[unparse(b[0])]

    out = body_of(els)
    for test, b in reversed(arms):
        t = tests.get(unparse(test))
        if t is None:
            raise Unrecognised(f"get_arg_options: help test {unparse(test)}")
        out = f"if {t} then {body_of(b)} else {out}"
    # the cached arg_options: auto-generated, then overwritten by the custom ones
    ao = find_def(fwt, "arg_options", cls="FieldWrapper")
    at = [unparse(s) for s in clean(ao.body)]
    if "options = self.get_arg_options()" not in at or "options.update(self.custom_arg_options)" not in at:
        raise Unrecognised("FieldWrapper.arg_options")
    imports = [unparse(n) for n in fwt.body if isinstance(n, ast.ImportFrom)]
    if not any("help_formatter import" in i and "TEMPORARY_TOKEN" in i for i in imports):
        raise Unrecognised("field_wrapper.py does not import TEMPORARY_TOKEN from help_formatter")
    return out


STD_DEFAULTS_RULE = (
    "help = action.help\n"
    "if help is None:\n    help = ''\n"
    "if '%(default)' not in help:\n"
    "    if action.default is not SUPPRESS:\n"
    "        defaulting_nargs = [OPTIONAL, ZERO_OR_MORE]\n"
    "        if action.option_strings or action.nargs in defaulting_nargs:\n"
    "            help += _(' (default: %(default)s)')"
    "\nreturn help"
)


def _std():
    path = _argparse_of_interpreter.__file__
    try:
        return ast.parse(open(path).read(), filename=path)
    except (OSError, SyntaxError) as e:
        raise Unrecognised(f"cannot parse the interpreter's argparse: {e}")


def _formatter(hf, std):
    token = const(module_assign(hf, "TEMPORARY_TOKEN"), str)
    cls = find_class(hf, "SimpleHelpFormatter")
    bases = []
    for b in cls.bases:
        t = unparse(b)
        if not t.startswith("argparse."):
            raise Unrecognised(f"SimpleHelpFormatter base {t}")
        bases.append(t[len("argparse."):])
    # which base supplies _get_help_string (python MRO over single-inheritance formatter classes = first base that defines it)
    supplier = None
    for b in bases:
        c = find_class(std, b)
        if [unparse(x) for x in c.bases] != ["HelpFormatter"]:
            raise Unrecognised(f"argparse.{b} is not a direct subclass of HelpFormatter")
        if any(isinstance(n, ast.FunctionDef) and n.name == "_get_help_string" for n in c.body):
            supplier = b
            break
    adds = False
    if supplier is not None:
        if supplier != "ArgumentDefaultsHelpFormatter":
            raise Unrecognised(f"_get_help_string comes from argparse.{supplier}")
        fn = find_def(std, "_get_help_string", cls=supplier)
        got = "\n".join(unparse(s) for s in clean(fn.body))
        if got.replace("_(' (default: %(default)s)')", "' (default: %(default)s)'") != STD_DEFAULTS_RULE.replace(
                "_(' (default: %(default)s)')", "' (default: %(default)s)'"):
            raise Unrecognised("argparse.ArgumentDefaultsHelpFormatter._get_help_string is not the rule the model knows")
        adds = True
    own = [n for n in cls.body if isinstance(n, ast.FunctionDef) and n.name == "_get_help_string"]
    strips = False
    if own:
        tb = [unparse(s) for s in clean(own[0].body)]
        if tb != ["help = super()._get_help_string(action=action)",
                  "if help is not None:\n    help = help.replace(TEMPORARY_TOKEN, '')", "return help"]:
            raise Unrecognised(f"SimpleHelpFormatter._get_help_string: {tb}")
        strips = True
    for n in cls.body:
        if isinstance(n, ast.FunctionDef) and n.name in ("_format_action", "_expand_help", "format_help", "_format_action_invocation",
                                                          "add_argument", "add_arguments", "start_section"):
            raise Unrecognised(f"SimpleHelpFormatter overrides {n.name}")
    return token, bases, adds, strips


def _parser(pt, std):
    cls = find_class(pt, "ArgumentParser")
    methods = {n.name for n in cls.body if isinstance(n, ast.FunctionDef)}
    for m in ("exit", "error", "_print_message", "format_help", "format_usage", "print_usage", "_get_formatter"):
        if m in methods:
            raise Unrecognised(f"ArgumentParser overrides {m}")
    init = find_def(pt, "__init__", cls="ArgumentParser")
    d = kw_defaults(init)
    if "formatter_class" not in d or unparse(d["formatter_class"]) != "SimpleHelpFormatter":
        raise Unrecognised("ArgumentParser.__init__: default formatter_class")
    if "add_help" not in d or const(d["add_help"], bool) is not True:
        raise Unrecognised("ArgumentParser.__init__: default of add_help")
    texts = [unparse(s) for s in clean(init.body)]
    if "kwargs['formatter_class'] = formatter_class" not in texts:
        raise Unrecognised("ArgumentParser.__init__: formatter_class is not handed to argparse")
    helps = [s for s in clean(init.body) if isinstance(s, ast.If) and unparse(s.test) == "self.add_help"]
    if len(helps) != 1:
        raise Unrecognised("ArgumentParser.__init__: `if self.add_help`")
    calls = [n for n in ast.walk(helps[0]) if isinstance(n, ast.Call) and unparse(n.func) == "super().add_argument"]
    if len(calls) != 1:
        raise Unrecognised("ArgumentParser.__init__: registration of the help action")
    kws = {k.arg: unparse(k.value) for k in calls[0].keywords}
    if kws.get("action") != "'help'" or kws.get("default") != "SUPPRESS":
        raise Unrecognised(f"ArgumentParser.__init__: help action keywords {kws}")
    if [unparse(a) for a in calls[0].args] != ["default_prefix + 'h'", "default_prefix * 2 + 'help'"]:
        raise Unrecognised("ArgumentParser.__init__: help option strings")

    # print_help
    ph = find_def(pt, "print_help", cls="ArgumentParser")
    pb = [unparse(s) for s in clean(ph.body)]
    if pb == ["self._preprocessing(args=list(args) if args else [])", "return super().print_help(file)"]:
        sets_up, applies_cfg = True, False
    elif pb == ["return super().print_help(file)"]:
        sets_up, applies_cfg = False, False
    else:
        raise Unrecognised(f"print_help: {pb}")
    if [a.arg for a in ph.args.args] != ["self", "file", "args"] or unparse(kw_defaults(ph)["file"]) != "None":
        raise Unrecognised("print_help signature")

    # parse_known_args: constructor config files, then set-up, then argparse
    pk = find_def(pt, "parse_known_args", cls="ArgumentParser")
    order = []
    for s in clean(pk.body):
        t = unparse(s)
        if isinstance(s, ast.If) and unparse(s.test) == "self.config_path":
            loops = [n for n in ast.walk(s) if isinstance(n, ast.For)]
            if len(loops) != 1 or [unparse(x) for x in clean(loops[0].body)] != ["self.set_defaults(config_file)"]:
                raise Unrecognised("parse_known_args: constructor config-file loop")
            order.append("config")
        elif t == "self._preprocessing(args=args, namespace=namespace)":
            order.append("setup")
        elif "super().parse_known_args(args, namespace)" in t:
            order.append("argparse")
    if order != ["config", "setup", "argparse"]:
        raise Unrecognised(f"parse_known_args: order of config files / set-up / argparse is {order}")

    # _preprocessing: cached; one add_arguments per flattened wrapper
    pp = find_def(pt, "_preprocessing", cls="ArgumentParser")
    body = clean(pp.body)
    bt = [unparse(s) for s in body]
    if bt[0] != "if self._preprocessing_done:\n    return" or bt[-1] != "self._preprocessing_done = True":
        raise Unrecognised("_preprocessing: the done-flag")
    for need in ("wrapped_dataclasses = self._conflict_resolver.resolve_and_flatten(wrapped_dataclasses)",
                 "wrapped_dataclasses = _flatten_wrappers(wrapped_dataclasses)"):
        if need not in bt:
            raise Unrecognised(f"_preprocessing: missing `{need}`")
    loops = [s for s in body if isinstance(s, ast.For)]
    if len(loops) != 1 or unparse(loops[0].iter) != "wrapped_dataclasses" \
            or [unparse(x) for x in clean(loops[0].body)] != ["wrapped_dataclass.add_arguments(parser=self)"]:
        raise Unrecognised("_preprocessing: the add_arguments loop")

    # the standard library side
    ha = find_def(std, "__call__", cls="_HelpAction")
    if [unparse(s) for s in clean(ha.body)] != ["parser.print_help()", "parser.exit()"]:
        raise Unrecognised("argparse._HelpAction.__call__")
    ex = find_def(std, "exit", cls="ArgumentParser")
    status = const(kw_defaults(ex)["status"], int)
    if status < 0 or "_sys.exit(status)" not in [unparse(s) for s in clean(ex.body)]:
        raise Unrecognised("argparse.ArgumentParser.exit")
    sp = find_def(std, "print_help", cls="ArgumentParser")
    spb = [unparse(s) for s in clean(sp.body)]
    if spb == ["if file is None:\n    file = _sys.stdout", "self._print_message(self.format_help(), file)"]:
        to_stdout = True
    elif spb == ["if file is None:\n    file = _sys.stderr", "self._print_message(self.format_help(), file)"]:
        to_stdout = False
    else:
        raise Unrecognised(f"argparse.ArgumentParser.print_help: {spb}")
    return sets_up, applies_cfg, status, to_stdout


def _ext_default_test(fwt):
    """FieldWrapper.default starts with the test that lets a default set from outside (set_default) win; emitted as a
    function of the falsiness of that (non-None) value"""
    fn = find_def(fwt, "default", cls="FieldWrapper")
    chains = [s for s in clean(fn.body) if isinstance(s, ast.If)]
    if not chains:
        raise Unrecognised("FieldWrapper.default: decision chain")
    arms, _els = if_chain(chains[0])
    mine = [(t, b) for t, b in arms if "self._default" in unparse(t).replace("self._default_factory", "")]
    if len(mine) != 1:
        raise Unrecognised("FieldWrapper.default: not exactly one arm tests self._default")
    test, body = mine[0]
    if "default = self._default" not in [unparse(x) for x in body]:
        raise Unrecognised("FieldWrapper.default: the arm that tests self._default does not use it")
    t = unparse(test)
    if t in ("self._default is not None", "self._default != None"):
        return "true"
    if t in ("self._default", "bool(self._default)"):
        return "negb falsy"
    raise Unrecognised(f"FieldWrapper.default: test on self._default is `{t}`")


DEFAULT_ARMS = {
    "self._default is not None": "DExt", "self._default != None": "DExt", "self._default": "DExt", "bool(self._default)": "DExt",
    "self.is_subgroup": "DSubgroup",
    "any((parent_default not in (None, argparse.SUPPRESS) for parent_default in self.parent.defaults))": "DParent",
    "self.field.default is not dataclasses.MISSING": "DField",
    "self.field.default_factory is not dataclasses.MISSING": "DFactory",
    "self.action == 'store_true'": "DStoreTrue",
    "self.action == 'store_false'": "DStoreFalse",
}
DEFAULT_ARM_VALUE = {"DExt": "default = self._default", "DSubgroup": "default = self.subgroup_default", "DField": "default = self.field.default",
                     "DFactory": "default = self._default_factory_result", "DStoreTrue": "default = False", "DStoreFalse": "default = True"}


def _default_chain(fwt):
    """the arms of the decision chain of FieldWrapper.default, in order; the value each arm assigns is checked"""
    fn = find_def(fwt, "default", cls="FieldWrapper")
    chains = [s for s in clean(fn.body) if isinstance(s, ast.If)]
    if not chains:
        raise Unrecognised("FieldWrapper.default: decision chain")
    arms, els = if_chain(chains[0])
    kinds = []
    for test, body in arms:
        k = DEFAULT_ARMS.get(unparse(test))
        if k is None:
            raise Unrecognised(f"FieldWrapper.default: arm test `{unparse(test)[:100]}`")
        texts = [unparse(x) for x in ast.walk(ast.Module(body=body, type_ignores=[])) if isinstance(x, ast.Assign)
                 and unparse(x.targets[0]) == "default"]
        if k == "DParent":
            if sorted(set(texts)) != ["default = defaults", "default = defaults[0]"]:
                raise Unrecognised(f"FieldWrapper.default: parent-default arm assigns {texts}")
        elif texts != [DEFAULT_ARM_VALUE[k]]:
            raise Unrecognised(f"FieldWrapper.default: arm {k} assigns {texts}")
        kinds.append(k)
    if len(set(kinds)) != len(kinds):
        raise Unrecognised(f"FieldWrapper.default: an arm occurs twice {kinds}")
    if [unparse(x) for x in els] != ["default = None"]:
        raise Unrecognised("FieldWrapper.default: the final else")
    return kinds


def _bool_action(repo):
    """what BooleanOptionalAction.__init__ hands to argparse as option_strings, as a function of (positive, negative)"""
    ca = parse(repo, "simple_parsing/helpers/custom_actions.py")
    init = find_def(ca, "__init__", cls="BooleanOptionalAction")
    calls = [n for n in ast.walk(init) if isinstance(n, ast.Call) and unparse(n.func) == "super().__init__"]
    if len(calls) != 1:
        raise Unrecognised("BooleanOptionalAction.__init__: super().__init__ call")
    kws = {k.arg: k.value for k in calls[0].keywords}
    if "option_strings" not in kws or calls[0].args:
        raise Unrecognised("BooleanOptionalAction.__init__: option_strings keyword")

    def ex(n):
        t = unparse(n)
        if t in ("option_strings", "list(option_strings)"):
            return "pos"
        if t == "self.negative_option_strings":
            return "negs"
        if isinstance(n, ast.BinOp) and isinstance(n.op, ast.Add):
            return f"({ex(n.left)} ++ {ex(n.right)})%list"
        raise Unrecognised(f"BooleanOptionalAction.__init__: option_strings={t}")

    pre = [unparse(s) for s in clean(init.body) if isinstance(s, ast.Assign) and unparse(s.targets[0]) == "option_strings"]
    if pre != ["option_strings = list(option_strings)"]:
        raise Unrecognised(f"BooleanOptionalAction.__init__: option_strings reassigned {pre}")
    return ex(kws["option_strings"])


def _blank_help(std):
    """argparse.HelpFormatter._format_action: the help text is printed `if action.help and action.help.strip()`, expanded by
    _expand_help (`self._get_help_string(action) % params`, params = vars(action))"""
    fa = find_def(std, "_format_action", cls="HelpFormatter")
    tests = [unparse(n.test) for n in ast.walk(fa) if isinstance(n, ast.If)]
    if "action.help and action.help.strip()" in tests:
        blank = True
    elif "action.help" in tests and "action.help and action.help.strip()" not in tests and tests.count("action.help") >= 1 \
            and "not action.help" in tests:
        blank = False
    else:
        raise Unrecognised(f"argparse.HelpFormatter._format_action: help tests {tests}")
    guarded = [n for n in ast.walk(fa) if isinstance(n, ast.If) and unparse(n.test) in ("action.help and action.help.strip()", "action.help")]
    if not any("help_text = self._expand_help(action)" in [unparse(x) for x in g.body] for g in guarded):
        raise Unrecognised("argparse.HelpFormatter._format_action: the help text is not _expand_help(action)")
    eh = find_def(std, "_expand_help", cls="HelpFormatter")
    body = [unparse(x) for x in clean(eh.body)]
    if body[0] != "params = dict(vars(action), prog=self._prog)" or body[-1] != "return self._get_help_string(action) % params":
        raise Unrecognised("argparse.HelpFormatter._expand_help")
    return blank


def _guards(dw, fwt, pt):
    """code sites the model relies on without a value to regenerate: recognised shape or fail closed"""
    # the groups are added in the order of the flattened wrapper list: every root followed by its descendants, pre-order
    fl = find_def(pt, "_flatten_wrappers")
    if [unparse(x) for x in clean(fl.body)][-2:] != ["roots_only = _unflatten_wrappers(wrappers)",
                                                      "return sum(([w] + list(w.descendants) for w in roots_only), [])"]:
        raise Unrecognised("_flatten_wrappers: traversal")
    ds = find_def(dw, "descendants", cls="DataclassWrapper")
    if [unparse(x) for x in clean(ds.body)] != ["for child in self._children:\n    yield child\n    yield from child.descendants"]:
        raise Unrecognised("DataclassWrapper.descendants: traversal")
    # the action's dest is the field's destination; the keyword arguments are computed once and cached (set-up freezes defaults)
    ga = find_def(fwt, "get_arg_options", cls="FieldWrapper")
    if "_arg_options['dest'] = self.dest" not in [unparse(x) for x in ast.walk(ga) if isinstance(x, ast.Assign)]:
        raise Unrecognised("get_arg_options: dest=")
    ao = find_def(fwt, "arg_options", cls="FieldWrapper")
    at = [unparse(x) for x in clean(ao.body)]
    if at[0] != "if self._arg_options:\n    return self._arg_options" or at[-1] != "return self._arg_options":
        raise Unrecognised("FieldWrapper.arg_options: caching")
    sd = find_def(fwt, "set_default", cls="FieldWrapper")
    if [unparse(x) for x in clean(sd.body)] != ["self._default = value"]:
        raise Unrecognised("FieldWrapper.set_default")


def _b(x):
    return "true" if x else "false"


def emit(repo: str) -> str:
    dw = parse(repo, "simple_parsing/wrappers/dataclass_wrapper.py")
    fwt = parse(repo, "simple_parsing/wrappers/field_wrapper.py")
    hf = parse(repo, "simple_parsing/help_formatter.py")
    pt = parse(repo, "simple_parsing/parsing.py")
    std = _std()
    skip, cmd_default = _skip_test(dw)
    _add_arguments(dw)
    _guards(dw, fwt, pt)
    title = _title(dw)
    description = _description(dw)
    chain = _default_chain(fwt)
    bool_opts = _bool_action(repo)
    blank = _blank_help(std)
    arg_help = _arg_help(fwt)
    ext_wins = _ext_default_test(fwt)
    token, bases, adds, strips = _formatter(hf, std)
    sets_up, applies_cfg, status, to_stdout = _parser(pt, std)
    return (
        "From SPV Require Import Base.Str Model.OptStr Model.Help Gen.FactsConflicts Gen.FactsBool.\nOpen Scope string_scope.\n"
        f"Definition cmd_default_gen : bool := {_b(cmd_default)}.\n"
        f"Definition skip_gen (init cmd : bool) : bool := {skip}.\n"
        f"Definition TEMPORARY_TOKEN_gen : string := {cstr(token)}.\n"
        f"Definition arg_help_gen (help : string) (default : option string) : option string :=\n  {arg_help}.\n"
        f"Definition ext_wins_gen (falsy : bool) : bool := {ext_wins}.\n"
        f"Definition default_chain_gen : list darm := [{'; '.join(chain)}].\n"
        f"Definition blank_help_hidden_gen : bool := {_b(blank)}.\n"
        f"Definition bool_action_opts_gen (pos negs : list string) : list string := {bool_opts}.\n"
        f"Definition title_gen (qualname : string) (destinations : list string) : string :=\n  {title}.\n"
        "Definition description_gen (is_member : bool) (below above inline class_docstring description shortened : string)\n"
        f"    (fields_have_docstrings huge : bool) : string :=\n  {description}.\n"
        f"Definition formatter_bases_gen : list string := [{'; '.join(cstr(b) for b in bases)}].\n"
        f"Definition adds_default_gen : bool := {_b(adds)}.\n"
        f"Definition strips_token_gen : bool := {_b(strips)}.\n"
        f"Definition print_help_sets_up_gen : bool := {_b(sets_up)}.\n"
        f"Definition print_help_applies_config_gen : bool := {_b(applies_cfg)}.\n"
        f"Definition help_status_gen : nat := {status}.\n"
        f"Definition help_stdout_gen : bool := {_b(to_stdout)}.\n"
        "(* the model instantiated with the regenerated facts; `perm` is the hash-seed oracle *)\n"
        "Definition exposedb_gen := exposedb skip_gen cmd_default_gen.\n"
        "Definition ordered_opts_gen := ordered_opts option_order_preserved_gen.\n"
        "Definition entry_of_gen := entry_of arg_help_gen TEMPORARY_TOKEN_gen adds_default_gen strips_token_gen ext_wins_gen DEFAULT_NEGATIVE_PREFIX\n"
        "  default_chain_gen blank_help_hidden_gen bool_action_opts_gen option_order_preserved_gen.\n"
        "Definition help_entries_gen := help_entries skip_gen cmd_default_gen arg_help_gen TEMPORARY_TOKEN_gen adds_default_gen strips_token_gen ext_wins_gen DEFAULT_NEGATIVE_PREFIX\n"
        "    default_chain_gen blank_help_hidden_gen bool_action_opts_gen title_gen description_gen option_order_preserved_gen.\n"
        "Definition resolver_gen (perm : list string -> list string) (c : cfg) (m : crmode) : list fw -> res (list fw) :=\n"
        "  resolve_gen (ordered_opts_gen perm c) m.\n"
        "Definition setup_gen (perm : list string -> list string) (c : cfg) (m : crmode) := setup skip_gen cmd_default_gen (resolver_gen perm c m).\n"
        "Definition api_defaults_gen := api_defaults print_help_applies_config_gen.\n"
        "(* the three observable behaviours on an already computed set-up outcome ... *)\n"
        "Definition cli_help_of_gen (perm : list string -> list string) :=\n"
        "  cli_help_of skip_gen cmd_default_gen arg_help_gen TEMPORARY_TOKEN_gen adds_default_gen strips_token_gen ext_wins_gen DEFAULT_NEGATIVE_PREFIX\n"
        "    default_chain_gen blank_help_hidden_gen bool_action_opts_gen title_gen description_gen option_order_preserved_gen perm\n"
        "              help_status_gen help_stdout_gen.\n"
        "Definition api_help_of_gen (perm : list string -> list string) :=\n"
        "  api_help_of skip_gen cmd_default_gen arg_help_gen TEMPORARY_TOKEN_gen adds_default_gen strips_token_gen ext_wins_gen DEFAULT_NEGATIVE_PREFIX\n"
        "    default_chain_gen blank_help_hidden_gen bool_action_opts_gen title_gen description_gen option_order_preserved_gen perm\n"
        "              print_help_sets_up_gen print_help_applies_config_gen.\n"
        "Definition parse_defaults_of_gen := parse_defaults_of skip_gen cmd_default_gen ext_wins_gen default_chain_gen print_help_sets_up_gen print_help_applies_config_gen.\n"
        "(* ... and composed with set-up: parse_args([\"--help\"]), print_help(), a parse with an empty command line *)\n"
        "Definition run_cli_help_gen (perm : list string -> list string) (c : cfg) (m : crmode) (pre cfgf : dmap) (F : list hwrap) :=\n"
        "  cli_help_of_gen perm c pre cfgf (setup_gen perm c m F).\n"
        "Definition run_api_help_gen (perm : list string -> list string) (c : cfg) (m : crmode) (pre cfgf : dmap) (F : list hwrap) :=\n"
        "  api_help_of_gen perm c pre cfgf (setup_gen perm c m F).\n"
        "Definition parse_defaults_gen (perm : list string -> list string) (c : cfg) (m : crmode) (after_print_help : bool)\n"
        "    (pre cfgf : dmap) (F : list hwrap) := parse_defaults_of_gen after_print_help pre cfgf (setup_gen perm c m F).\n"
    )
