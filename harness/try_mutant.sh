#!/bin/bash
# try_mutant.sh <prop> <repo-tree-with-the-change> : run ./check <prop> against another tree with a private copy of coq/
set -u
prop=$1; tree=$2
cq=/root/scratch/coq-mut-$prop-$$
mkdir -p /root/scratch && rm -rf "$cq" && mkdir -p "$cq" && rsync -a --exclude CorrRun --exclude .lock /verif/coq/ "$cq"/
cd /verif && VERIF_REPO="$tree" VERIF_COQDIR="$cq" VERIF_SEARCH_MAX=${VERIF_SEARCH_MAX:-3000} ./check "$prop" ${3:-} 2>&1 | grep -vE "^KNOWN-FINDING" | tail -${TAILN:-12}
rc=${PIPESTATUS[0]}
rm -rf "$cq"
exit $rc
