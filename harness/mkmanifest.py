"""Regenerates MANIFEST.json from harness/manifest_data.py (kept valid at all times)."""
import json, os, sys
HERE = os.path.dirname(os.path.abspath(__file__))
sys.path.insert(0, HERE)
import manifest_data as D

ALL = [f"C{n:02d}" for n in range(1, 21)]
checks, na = [], []
for pid in ALL:
    if pid in D.CLAIMED:
        c = D.CLAIMED[pid]
        checks.append({
            "property_id": pid,
            "quick_cmd": f"./check {pid} --tier quick",
            "thorough_cmd": f"./check {pid} --tier thorough",
            "evidence_file": f"/verif/evidence/{pid}.json",
            "replay_cmd_template": f"./check {pid} --replay {{path}}",
            "engine": "coq-model+correspondence",
            "level_claimed": {"category": "proof", "text": c["text"], "design_ref": c.get("design_ref", "DESIGN.md section 4")},
            "level_note": c["note"],
            "technique": c["technique"],
        })
    else:
        na.append({"property_id": pid, "reason": D.NOT_CLAIMED.get(pid, "check not built yet in this round; see DESIGN.md section 4 for the plan")})
m = {
    "version": 1,
    "setup_cmd": "./setup.sh",
    "hooks": {"guard": "LEBRICE_SIMPLEPARSING_VERIF", "enable": "no hooks in the source tree; checks set LEBRICE_SIMPLEPARSING_VERIF=1 for uniformity only",
              "baseline_off_cmd": "cd /repo && /venv/bin/python -m pytest -ra -q -p no:cacheprovider --timeout=900 --continue-on-collection-errors",
              "source_commits": [], "add_only": True},
    "engines": [{"name": "coq-model+correspondence", "path": "/verif/harness/check.py", "serves_properties": sorted(D.CLAIMED),
                 "kind_free_text": "Coq 8.16 model + theorems (coq/), facts regenerated from the source by ast translators (harness/translate), vm_compute correspondence against the implementation (harness/props)"},
                {"name": "argparse-token-model (ARGP)", "path": "/verif/harness/props/ARGP.py", "serves_properties": ["C01", "C02", "C03", "C04", "C12", "C15", "C20"],
                 "kind_free_text": "auxiliary engine, run as ./check ARGP: token-level Coq model of CPython 3.12 argparse optionals, interface lemmas I1-I6, composition theorem and bridge to Leaf.take_values, differential correspondence against the real argparse (the modelled assumption of the per-field properties, checked)"},
                {"name": "minipy-interpreter (MINIPY)", "path": "/verif/harness/props/MINIPY.py", "serves_properties": ["C01", "C03", "C07", "C10", "C11", "C12"],
                 "kind_free_text": "auxiliary engine, run as ./check MINIPY: the MiniPy interpreter of coq/Model/MiniPy.v (the reading of Python under the bridge theorems C01/C03/C07/C10/C11/C12 *_source_*is_model) against CPython on random typed and faulty programs over every constructor; every program is printed to Python source, translated back by harness/translate/minipy.py (round trip must be the identity; aliasing programs must be refused) and executed; value or exception class compared in Coq with `run env prog`"}],
    "checks": checks,
    "notes": D.NOTES,
    "not_applicable": na,
}
json.dump(m, open(os.path.join(os.path.dirname(HERE), "MANIFEST.json"), "w"), indent=1)
print("claimed:", sorted(D.CLAIMED), "not claimed:", [x["property_id"] for x in na])
