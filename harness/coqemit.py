"""Emit Coq terms (as text) from Python values.  Used by every props/Cxx.py `to_coq`."""


def cstr(s: str) -> str:
    """A Coq string literal (byte string; '"' doubled).  Non-printable / non-ASCII bytes are not
    representable in a literal portably, so callers keep generated text inside printable ASCII."""
    assert isinstance(s, str), s
    for ch in s:
        o = ord(ch)
        if o < 32 or o > 126:
            return cstr_bytes(s.encode("utf-8"))
    return '"' + s.replace('"', '""') + '"'


def cstr_bytes(b: bytes) -> str:
    """String built from explicit ascii codes (for control characters / UTF-8 bytes)."""
    out = '""'
    for byte in reversed(b):
        out = f"(String (ascii_of_nat {byte}) {out})"
    return out


def cbool(b) -> str:
    return "true" if b else "false"


def cnat(n: int) -> str:
    assert 0 <= n < 5000, n
    return f"{n}%nat"


def cZ(n: int) -> str:
    return f"({n})%Z"


def clist(items) -> str:
    return "[" + "; ".join(items) + "]"


def copt(x) -> str:
    return "None" if x is None else f"(Some {x})"


def cpair(a, b) -> str:
    return f"({a}, {b})"


def cstrlist(ss) -> str:
    return clist([cstr(s) for s in ss])


def outcome(obs) -> str:
    """obs = ["ok", term] | ["exit", n] | ["raise", cls] | ["cre"] | ["inconsistent"] -> res term text,
    where `term` is already Coq text."""
    k = obs[0]
    if k == "ok":
        return f"(Ok {obs[1]})"
    if k == "exit":
        return f"(Err (Exit {cnat(int(obs[1]))}))"
    if k == "cre":
        return "(Err CRE)"
    if k == "inconsistent":
        return "(Err Inconsistent)"
    if k == "raise":
        return f"(Err (Raise {cstr(obs[1])}))"
    raise ValueError(obs)
