"""Helpers that run inside the implementation interpreter (/venv/bin/python, PYTHONPATH=/repo)."""
from __future__ import annotations

import contextlib
import dataclasses
import enum
import io
import pathlib
import sys


def outcome_of(fn):
    """Run fn() and classify how it ends.

    -> ["ok", value] | ["exit", code, stderr_text, stdout_text] | ["cre"] | ["inconsistent"]
       | ["raise", class name, message]
    """
    out, errf = io.StringIO(), io.StringIO()
    try:
        with contextlib.redirect_stdout(out), contextlib.redirect_stderr(errf):
            v = fn()
        return ["ok", v]
    except SystemExit as e:  # argparse error path / parser.exit / ParsingError
        code = e.code
        if code is None:
            code = 0
        if not isinstance(code, int):
            code = 1
        return ["exit", code, errf.getvalue(), out.getvalue()]
    except BaseException as e:  # noqa: BLE001
        name = type(e).__name__
        if name == "ConflictResolutionError":
            return ["cre"]
        if name == "InconsistentArgumentError":
            return ["inconsistent"]
        return ["raise", name, str(e)[:300]]


def canon(v):
    """JSON-able canonical form of a parsed value; keeps Python types apart (tuple vs list, bool vs int,
    enum vs str, Path vs str)."""
    if isinstance(v, bool):
        return {"t": "bool", "v": v}
    if isinstance(v, enum.Enum):
        c = type(v).__name__
        # "of the same Python type": a member of ANOTHER class that merely has the same name (a class of an earlier case,
        # handed back by a cache keyed on the name) is not the declared type
        if CURRENT_NS is not None and CURRENT_NS.get(c) is not type(v):
            c += "!not-the-declared-class"
        return {"t": "enum", "c": c, "v": v.name}
    if isinstance(v, int):
        return {"t": "int", "v": str(v)}
    if isinstance(v, float):
        return {"t": "float", "v": repr(v)}
    if isinstance(v, str):
        return {"t": "str", "v": v}
    if v is None:
        return {"t": "none"}
    if isinstance(v, pathlib.PurePath):
        return {"t": "path", "v": str(v)}
    if isinstance(v, tuple):
        return {"t": "tuple", "v": [canon(x) for x in v]}
    if isinstance(v, list):
        return {"t": "list", "v": [canon(x) for x in v]}
    if isinstance(v, (set, frozenset)):
        return {"t": "set", "v": sorted((canon(x) for x in v), key=repr)}
    if isinstance(v, dict):
        return {"t": "dict", "c": type(v).__name__, "v": [[canon(k), canon(x)] for k, x in v.items()]}
    if dataclasses.is_dataclass(v) and not isinstance(v, type):
        fs = []
        for f in dataclasses.fields(v):
            try:
                fs.append([f.name, canon(getattr(v, f.name))])
            except AttributeError:
                fs.append([f.name, {"t": "unset"}])
        return {"t": "dc", "c": type(v).__name__, "v": fs}
    return {"t": "other", "c": type(v).__name__, "v": repr(v)[:200]}


CURRENT_NS = None  # namespace in which the current case's classes were defined (set by runners that exec generated source)


def set_current_ns(ns):
    global CURRENT_NS
    CURRENT_NS = ns


def reset_simple_parsing_state():
    """Class-level settings that parsers overwrite (FieldWrapper.*) are reset between cases so that one
    case cannot influence the next (C08 studies that influence on purpose and does not call this)."""
    global CURRENT_NS
    CURRENT_NS = None
    from simple_parsing.wrappers.field_wrapper import (
        ArgumentGenerationMode,
        DashVariant,
        FieldWrapper,
        NestedMode,
    )

    FieldWrapper.add_dash_variants = DashVariant.AUTO
    FieldWrapper.argument_generation_mode = ArgumentGenerationMode.FLAT
    FieldWrapper.nested_mode = NestedMode.DEFAULT


def ensure_repo_on_path():
    if "/repo" not in sys.path:
        sys.path.insert(0, "/repo")
